#!/bin/bash
# development helper: runs every property's thorough command without touching the committed evidence (KV_NO_EVIDENCE=1)
cd "$(dirname "$(readlink -f "$0")")"
for p in ${@:-C03 C20 C18 C19 C08 C09 C10 C12 C13 C17 C16 C14 C04 C07 C06 C15 C05 C02 C01}; do
  s=$(date +%s)
  KV_NO_EVIDENCE=1 ./check $p thorough > logs/run_$p.thorough.out 2>&1
  rc=$?
  echo "$p rc=$rc wall=$(( $(date +%s) - s ))s  $(grep -c ' PASS ' logs/run_$p.thorough.out) pass, $(grep -c 'INCONCLUSIVE ' logs/run_$p.thorough.out) inconclusive, $(grep -c '^VIOLATION' logs/run_$p.thorough.out) violations"
done
