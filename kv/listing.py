"""python3 -m kv.listing : markdown summary of the registered instance sets per property (for DESIGN.md appendix B)."""
import collections
from . import registry

def main():
    props = collections.OrderedDict()
    for i in registry.INSTANCES:
        for p, t in i["props"].items():
            d = props.setdefault(p, {"quick": [], "thorough": []})
            d[t].append(i["name"])
    print("| id | quick instances | thorough-only instances | quick set (harness names) |")
    print("|---|---|---|---|")
    for p in sorted(props):
        q, t = props[p]["quick"], props[p]["thorough"]
        names = ", ".join("`%s`" % n for n in q)
        print("| %s | %d | %d | %s |" % (p, len(q), len(t), names))

if __name__ == "__main__":
    main()
