"""Regenerates /verif/MANIFEST.json from the registry: `python3 -m kv.manifest` in /verif."""
import json
import os

from . import registry
from .main import load_props

VERIF = os.path.dirname(os.path.dirname(os.path.abspath(__file__)))

TECH = "bounded model checking of the compiled code: Kani 0.68 -> CBMC 6.11 -> SAT (cadical), one-step induction over a symbolic pre-state"

# per property: (level text, level note, design section)
STEP = ("Decided inductively: the pre-state is an arbitrary terminal satisfying the representation invariant InvT (DESIGN.md 3.1) - every cell, pen, mode, "
        "saved context, scrollback line symbolic within the instance's geometry - and the solver (CBMC/cadical on the Kani-compiled code of /repo) shows the "
        "exact one-step post-condition plus InvT for every value; one step over an arbitrary valid state covers histories of any length. ")
NOTE = ("Bounded: screens up to 5x5 (row-moving operations 3x3 / 3x4 with cursor row and margins enumerated as instances), 0-2 scrollback lines, "
        "scrollback limit a constant of the instance; width-changing resize (reflow), dump(), text() and the String layer are outside. Trusted: Kani's "
        "std/allocator model; stubs listed in the evidence (ptr_rotate replaced by an element-wise rotate that is itself checked against its contract).")
CLAIMS = {
    "C01": ("Every Kani built-in check (panic, index / slice range, unwrap, arithmetic overflow, division by zero, pointer validity, unwinding bound) of every "
            "harness family is discharged: Parser::feed from any parser state with any char, every Function variant executed from an arbitrary valid terminal, "
            "gc / changes / height-only resize / screen switches, on the degenerate geometries 1x1 and 1xN as well. " + STEP, NOTE, "5/C01"),
    "C02": (STEP + "InvT (size, view = tail of lines, line widths, lines >= rows, last line unwrapped, cursor range and wrap-pending equivalence, margins, saved positions, "
            "flags per row) is asserted after every operation family; changes() indices strictly increasing and < rows.", NOTE, "5/C02"),
    "C03": ("For all 14 states x all 1,112,064 scalar values the next state and kind of action of Parser::feed equal an independently written Williams table (one query); "
            "the action helpers, csi/esc/execute dispatch for every final / intermediate / parameter value, mode lists, parameter accumulation and saturation, "
            "memoryless re-entry (ESC, CSI, DCS clear all 32 parameters) and ESC Fe == C1 are decided directly from an arbitrary parser state satisfying InvP.",
            "Bounds: <= 8 mode parameters per list, cur_param in {0,1,2,5,30,31}; recorder / contract stubs of avt functions listed in the evidence, each justified by a harness deciding the real function.", "5/C03"),
    "C04": (STEP + "Print(ch) for every printable scalar value: translated glyph and current pen in exactly one cell, cursor advance / wrap-pending / deferred wrap with "
            "mark and region scroll, insert-mode shift, auto-wrap-off overwrite, nothing else changes; REP 0/1 == one print; charset table; SO/SI/designations/IRM/DECAWM.", NOTE, "5/C04"),
    "C05": (STEP + "Closed-form post-conditions for BS, CR, CUU, CUD, CUF, CUB, CNL, CPL, CHA, CUP, VPA, VPR, HT, CHT, CBT, LF/NEL/RI off the margin, DECSTBM, DECOM for all u16 "
            "parameters, every start position incl. wrap-pending, every margin pair, origin mode on/off; no cell changes.", NOTE, "5/C05"),
    "C06": (STEP + "LF/NEL/RI on the margin, SU, SD, IL, DL for all counts: rows of the range shift by min(n,height), vacated rows blank in the current pen, every other line "
            "unchanged, lines() grows exactly for an upward scroll starting at row 0; DECSTBM validity.", NOTE + " Whole-view upward scrolls have the count case-split (0,1,2,3,4,65535).", "5/C06"),
    "C07": (STEP + "ED 0/1/2, EL 0/1/2, ECH n, ICH n, DCH n, DECALN: exact extent incl. the wrap-pending column, blanks in the current pen, shift and drop-off, "
            "soft-wrap mark cleared when the tail is erased / characters deleted, cursor and everything else unchanged.", NOTE, "5/C07"),
    "C08": ("SGR decoding: for any list of 6 parameters with any sub-parameters, a leading well-formed operation (after 0-2 unknown codes) is decoded to exactly the statement's "
            "operation and consumes exactly its parameters (induction over the list); general lists of <= 2 parameters in full. The pen reaches printed and blanked cells "
            "(print / erase / scroll / alternate-screen harnesses assert cell.pen == pen); execute(Sgr(ops)) is the left fold of 0-3 arbitrary operations over any pen.", NOTE + " Pen::dump round trip outside.", "5/C08"),
    "C09": ("Cell level only: from any Plain state (what printable text and CR LF drive a fresh primary screen into, with arbitrary lines above the cursor and "
            "0-2 scrollback lines, unlimited scrollback) each plain-text step - print, print with a deferred wrap, CR LF - writes exactly one cell / marks exactly "
            "the row left / starts the next line in absolute line coordinates, appends a line exactly on the last row, and re-establishes Plain; by induction the "
            "layout at width w is the deferred-wrap layout for every height and scroll amount.",
            "The String layer (Buffer::text, TextUnwrapper: join + trim_end) and the equality of text() at two widths as strings are outside: str::trim_end / String::extend "
            "on symbolic characters run CBMC out of memory. Widths 1-3, heights 1-3.", "5/C09"),
    "C10": ("Kernels only: height-only Terminal::resize from an arbitrary state (no line altered, only rows below the cursor dropped, cursor stays on its line, InvT), the "
            "height re-synchronisation on return from the alternate screen, and the reflow kernels Line::contract (any line of <= 5 cells), Line::extend (all shapes of "
            "1-2 + 1-3 cells), Line::trim and logical/relative cursor position. The width-changing composition (Reflow::next, Buffer::resize with new_cols != cols) is undecided.",
            "Buffer::resize with a width change is out of CBMC's reach here (DESIGN.md section 0); heights 1..4, cursor rows and scrollback sizes enumerated as instances.", "5/C10"),
    "C12": ("feed_str = fold of the decided step followed by changes(); gc(): both are shown invisible - view, cursor, modes, saved contexts unchanged; with unlimited "
            "scrollback lines() unchanged - from an arbitrary state, iterator drained or dropped.", NOTE + " A literal comparison of 2^(n-1) chunkings of a string is outside.", "5/C12"),
    "C13": (STEP + "gc() for limits 0,1,3,10 and scrollback sizes around the hard limit: lines() <= rows + L + L/10 afterwards, == rows for L = 0 and on the alternate screen; "
            "every family that adds lines sets the pending-trim flag (InvT.G11).", NOTE, "5/C13"),
    "C14": (STEP + "gc() hands out exactly the oldest lines beyond the soft limit, unchanged and in order, whether drained or dropped, and nothing on the alternate screen; "
            "every other family leaves every scrollback line in place (frame witness).", NOTE + " TextCollector Strings outside.", "5/C14"),
    "C15": (STEP + "From cleared flags, a visible cell that differs after the step implies its row is flagged (witness cell, every family); changes() returns exactly the flags.", NOTE, "5/C15"),
    "C16": (STEP + "Entering (47/1047/1049) parks the primary line for line and presents blanks in the current pen; every family leaves the parked screen untouched; leaving "
            "restores it, with a stale height re-synchronised without altering a line; 1049 cursor save / restore.", NOTE, "5/C16"),
    "C17": (STEP + "DECSC/SCOSC/1048h/1049h store exactly (col, row, pen, origin, auto-wrap); DECRC/SCORC/1048l/1049l restore them; contexts are per screen (swap); "
            "every other family leaves both untouched; resize clamps the saved position; RIS returns both to the power-on defaults.", NOTE, "5/C17"),
    "C18": ("For every tab-stop set satisfying the set invariant (strictly increasing, inside the screen) with a bounded number of stops, the solver decides Tabs::new / set / unset / "
            "clear / expand / contract / after / before against membership formulas for all widths <= 73, all columns and all u16 counts; HT/CHT/CBT/HTS/CTC/TBC and "
            "Terminal::resize glue are decided from an arbitrary terminal state. One inductive step over an arbitrary valid set covers resize/edit histories of any length.",
            "Bounds: <= 5 stops per set, widths <= 73; Kani's std/allocator model; Buffer::resize replaced by its contract in the resize-glue harness.", "5/C18"),
    "C19": (STEP + "execute(Ris) from any state (alternate screen, stale parked height, any modes incl. cursor keys, custom tabs) equals Terminal::new field by field; "
            "ESC c from any parser state returns Ris and leaves Parser::new().", NOTE + " The configured limit is symbolic (any usize) in the quick tier; unlimited scrollback in the thorough tier.", "5/C19"),
    "C20": ("From every string state every payload character yields no function and stays in the string; ST / ESC \\ / BEL(OSC) end it in ground; unimplemented CSI finals, "
            "private markers, intermediates, ESC finals and unassigned C0/C1 dispatch to None - a None step never reaches the terminal.",
            "Composition with the terminal is by the three-line body of Vt::feed / feed_str (no execute without a function).", "5/C20"),
}

NOT_APPLICABLE = {
    "C11": "dump() is fmt/String construction followed by a whole-program re-parse and an equivalence over all future input; "
           "the smallest leaf (Pen::dump round trip) does not finish in CBMC within 17 min, and concretising the state reduces the check to running a test",
}

NOT_BUILT = "check not built yet in this revision of /verif (see DESIGN.md section 5 for the plan)"


def build():
    props = load_props()
    checks = []
    na = []
    for pid in sorted(props):
        has = any(pid in i["props"] for i in registry.INSTANCES)
        if pid in CLAIMS and has:
            text, note, ref = CLAIMS[pid]
            checks.append({
                "property_id": pid,
                "quick_cmd": "./check %s quick" % pid,
                "thorough_cmd": "./check %s thorough" % pid,
                "evidence_file": "/verif/evidence/%s.json" % pid,
                "replay_cmd_template": "./check replay {path}",
                "engine": "kani-cbmc",
                "level_claimed": {"category": "model_checking", "text": text, "design_ref": ref},
                "level_note": note,
                "technique": TECH,
            })
        else:
            na.append({"property_id": pid, "reason": NOT_APPLICABLE.get(pid, NOT_BUILT)})
    m = {
        "version": 1,
        "setup_cmd": "./check setup",
        "hooks": {
            "guard": "kani",
            "enable": "no hook is committed to /repo: every check copies /repo's working tree to a scratch crate and appends "
                      "`#[cfg(any(kani, kverif_replay))] #[path=...] mod kverif;` child modules (harnesses in /verif/harness) there; "
                      "cfg(kani) is set by `cargo kani` only",
            "baseline_off_cmd": "cd /repo && cargo test --workspace --no-fail-fast --offline",
            "source_commits": [],
            "add_only": True,
        },
        "engines": [{
            "name": "kani-cbmc",
            "path": "/verif/check",
            "serves_properties": [c["property_id"] for c in checks],
            "kind_free_text": "Kani 0.68.0 code generation of /repo's sources + harness child modules; goto-cc/goto-instrument/CBMC 6.11.0 "
                              "pipeline driven per harness with time/memory caps; cadical SAT back end; counterexamples re-executed natively",
        }],
        "checks": checks,
        "not_applicable": na,
        "notes": "Exit codes: 0 held within the stated bounds; 1 VIOLATION (solver counterexample reproduced natively); 2 INCONCLUSIVE "
                 "(time-out, out of memory, harness does not compile, vacuous query, counterexample not reproduced).  /verif/known_findings.json lists "
                 "recorded findings and fixed: entries.",
    }
    return m


if __name__ == "__main__":
    m = build()
    json.dump(m, open(os.path.join(VERIF, "MANIFEST.json"), "w"), indent=1)
    print("claimed:", [c["property_id"] for c in m["checks"]])
    print("not applicable:", [c["property_id"] for c in m["not_applicable"]])
