"""Regenerates /verif/MANIFEST.json from the registry: `python3 -m kv.manifest` in /verif."""
import json
import os

from . import registry
from .main import load_props

VERIF = os.path.dirname(os.path.dirname(os.path.abspath(__file__)))

TECH = "bounded model checking of the compiled code: Kani 0.68 -> CBMC 6.11 -> SAT (cadical), one-step induction over a symbolic pre-state"

# per property: (level text, level note, design section)
CLAIMS = {
    "C18": (
        "For every tab-stop set satisfying the set invariant (strictly increasing, inside the screen) with a bounded number of stops, "
        "the solver decides Tabs::new / set / unset / clear / expand / contract / after / before against membership formulas for all "
        "widths <= 40..73, all columns and all u16 counts; HT/CHT/CBT/HTS/CTC/TBC and Terminal::resize glue are decided from an arbitrary "
        "terminal state.  One inductive step over an arbitrary valid set covers resize/edit histories of any length.",
        "Bounds: <= 5 stops per set, widths <= 73; Kani's std/allocator model; Buffer::resize replaced by its contract in the resize-glue harness.",
        "5/C18"),
}

NOT_APPLICABLE = {
    "C11": "dump() is fmt/String construction followed by a whole-program re-parse and an equivalence over all future input; "
           "the smallest leaf (Pen::dump round trip) does not finish in CBMC within 17 min, and concretising the state reduces the check to running a test",
}

NOT_BUILT = "check not built yet in this revision of /verif (see DESIGN.md section 5 for the plan)"


def build():
    props = load_props()
    checks = []
    na = []
    for pid in sorted(props):
        has = any(pid in i["props"] for i in registry.INSTANCES)
        if pid in CLAIMS and has:
            text, note, ref = CLAIMS[pid]
            checks.append({
                "property_id": pid,
                "quick_cmd": "./check %s quick" % pid,
                "thorough_cmd": "./check %s thorough" % pid,
                "evidence_file": "/verif/evidence/%s.json" % pid,
                "replay_cmd_template": "./check replay {path}",
                "engine": "kani-cbmc",
                "level_claimed": {"category": "model_checking", "text": text, "design_ref": ref},
                "level_note": note,
                "technique": TECH,
            })
        else:
            na.append({"property_id": pid, "reason": NOT_APPLICABLE.get(pid, NOT_BUILT)})
    m = {
        "version": 1,
        "setup_cmd": "./check setup",
        "hooks": {
            "guard": "kani",
            "enable": "no hook is committed to /repo: every check copies /repo's working tree to a scratch crate and appends "
                      "`#[cfg(any(kani, kverif_replay))] #[path=...] mod kverif;` child modules (harnesses in /verif/harness) there; "
                      "cfg(kani) is set by `cargo kani` only",
            "baseline_off_cmd": "cd /repo && cargo test --workspace --no-fail-fast --offline",
            "source_commits": [],
            "add_only": True,
        },
        "engines": [{
            "name": "kani-cbmc",
            "path": "/verif/check",
            "serves_properties": [c["property_id"] for c in checks],
            "kind_free_text": "Kani 0.68.0 code generation of /repo's sources + harness child modules; goto-cc/goto-instrument/CBMC 6.11.0 "
                              "pipeline driven per harness with time/memory caps; cadical SAT back end; counterexamples re-executed natively",
        }],
        "checks": checks,
        "not_applicable": na,
        "notes": "Exit codes: 0 held within the stated bounds; 1 VIOLATION (solver counterexample reproduced natively); 2 INCONCLUSIVE "
                 "(time-out, out of memory, harness does not compile, vacuous query, counterexample not reproduced).  /verif/known_findings.json lists "
                 "recorded findings and fixed: entries.",
    }
    return m


if __name__ == "__main__":
    m = build()
    json.dump(m, open(os.path.join(VERIF, "MANIFEST.json"), "w"), indent=1)
    print("claimed:", [c["property_id"] for c in m["checks"]])
    print("not applicable:", [c["property_id"] for c in m["not_applicable"]])
