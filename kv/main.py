import argparse
import hashlib
import json
import os
import re
import shutil
import sys
import threading
import time

from . import pipeline as pl
from . import registry
from . import replay as rp

VERIF = pl.VERIF
KNOWN = os.path.join(VERIF, "known_findings.json")

TIMEOUTS = {"quick": 900, "thorough": 3000}
MEM_TOTAL_GB = int(os.environ.get("KV_MEM_TOTAL_GB", "52"))
MAX_JOBS = int(os.environ.get("KV_JOBS", "14"))

# CBMC property classes that are never a verdict about the code under test
META_CLASSES = {"cover", "reachability_check"}
INCONCLUSIVE_CLASSES = {"unwind", "unsupported_construct", "recursion"}


PARTIAL_RUN = False  # set when --only restricts the instance set: such a run writes no evidence


def load_props():
    out = {}
    for line in open(os.path.join(VERIF, "properties.jsonl")):
        line = line.strip()
        if line:
            p = json.loads(line)
            out[p["id"]] = p
    return out


def select(prop, tier, only=None):
    sel = []
    for i in registry.INSTANCES:
        t = i["props"].get(prop)
        if prop == "ALL":
            t = "quick"
        if t is None:
            continue
        if tier == "quick" and t != "quick":
            continue
        if only and not re.search(only, i["name"]):
            continue
        sel.append(i)
    return sel


class MemPool:
    """admit a job when its memory cap fits into what is left"""

    def __init__(self, total, max_jobs):
        self.total, self.max_jobs = total, max_jobs
        self.used, self.jobs = 0, 0
        self.cv = threading.Condition()

    def acquire(self, gb):
        gb = min(gb, self.total)
        with self.cv:
            while self.used + gb > self.total or self.jobs >= self.max_jobs:
                self.cv.wait()
            self.used += gb
            self.jobs += 1

    def release(self, gb):
        gb = min(gb, self.total)
        with self.cv:
            self.used -= gb
            self.jobs -= 1
            self.cv.notify_all()


def classify(inst, parsed, rc, prop):
    """Per-harness verdict.  Returns dict with keys: verdict in {pass, fail, inconclusive},
    reasons, failed (list of result dicts relevant to prop), notes (other-property failures)."""
    res = parsed["results"]
    out = {"verdict": "pass", "reasons": [], "failed": [], "notes": [], "covers": [],
           "n_checks": 0, "n_success": 0, "n_tagged": 0, "n_tagged_prop": 0, "unreachable_tagged": 0}
    if rc == "timeout":
        out["verdict"] = "inconclusive"
        out["reasons"].append("time-out")
        return out
    if rc not in (0, 10) or parsed["status"] not in ("success", "failure"):
        out["verdict"] = "inconclusive"
        why = "out of memory" if parsed["stats"].get("oom") else "CBMC ended with status %s / exit %s" % (parsed["status"], rc)
        out["reasons"].append(why)
        return out
    reach = {}
    for r in res:
        if r["cls"] == "reachability_check":
            reach[r["desc"]] = r["status"]
    for r in res:
        if r["cls"] in META_CLASSES:
            if r["cls"] == "cover":
                sat = r["status"] == "FAILURE" or r["status"] == "SATISFIED"
                # a cover statement in code that this instance's *concrete* arguments switch off
                # (e.g. the arm of another operation) is unreachable, not vacuous
                reachable = reach.get(r["kani_id"], "FAILURE") == "FAILURE"
                out["covers"].append({"desc": r["desc"], "satisfied": sat, "reachable": reachable})
                if not sat and reachable and r["desc"] not in inst["optional_covers"] and not r["desc"].startswith("[VAC]"):
                    out["reasons"].append("cover not satisfiable (vacuous): " + r["desc"])

            continue
        out["n_checks"] += 1
        if r["tags"]:
            out["n_tagged"] += 1
            if prop in r["tags"] or "FR" in r["tags"]:
                out["n_tagged_prop"] += 1
        if r["status"] == "SUCCESS":
            out["n_success"] += 1
            continue
        if r["status"] != "FAILURE":
            out["reasons"].append("check %s has status %s" % (r["property"], r["status"]))
            continue
        if r["cls"] in INCONCLUSIVE_CLASSES:
            out["reasons"].append("%s: %s (bound too small or construct unsupported)" % (r["property"], r["desc"]))
            continue
        tags = [t for t in r["tags"] if t != "VAC"]
        if not tags and "/kverif/" in str(r["loc"].get("file", "")):
            # an untagged failure located in the harness sources (overflow / index in oracle code) is a
            # mistake of the machinery, never a verdict about /repo
            out["reasons"].append("harness-internal check failed: %s @%s:%s" % (r["desc"], str(r["loc"].get("file", ""))[-24:], r["loc"].get("line", "")))
            continue
        if tags and prop not in tags and "FR" not in tags:
            out["notes"].append(r)
        else:
            out["failed"].append(r)
    vac = [c for c in out["covers"] if c["desc"].startswith("[VAC]")]
    if not vac or not any(c["satisfied"] for c in vac):
        if not out["failed"]:
            out["reasons"].append("end of harness not reachable (vacuous) or no end-of-harness witness")
    if out["failed"]:
        out["verdict"] = "fail"
    elif out["reasons"]:
        out["verdict"] = "inconclusive"
    return out


def load_known():
    if os.path.exists(KNOWN):
        return json.load(open(KNOWN))
    return {"findings": [], "fixed": []}


def match_known(known, prop, inst, r):
    for f in known.get("findings", []):
        if f.get("property") != prop:
            continue
        if re.search(f["harness"], inst["name"]) and re.search(f["check"], r["desc"]):
            return f
    return None


def run_property(prop, tier, args):
    t_start = time.time()
    props = load_props()
    if prop not in props and prop != "ALL":
        print("unknown property", prop)
        return 2
    seed = int(os.environ.get("VERIF_SEED", "0") or 0)
    sel = select(prop, tier, args.only)
    if not sel:
        print("no harness instance registered for %s (%s)" % (prop, tier))
        return 2
    os.makedirs(os.path.join(VERIF, "logs"), exist_ok=True)
    logp = os.path.join(VERIF, "logs", "%s-%s.log" % (prop, tier))
    log = open(logp, "w")
    root = pl.make_scratch(sel)
    rc_final = 2
    try:
        rc_final = _run(prop, tier, args, sel, root, log, seed, t_start, props.get(prop))
    finally:
        log.close()
        if not args.keep:
            shutil.rmtree(root, ignore_errors=True)
        else:
            print("scratch kept at", root)
    return rc_final


def _run(prop, tier, args, sel, root, log, seed, t_start, propdef):
    known = load_known()
    results = {}
    try:
        meta, t_codegen, stub_lines = pl.codegen(root, sel, log)
    except pl.Inconclusive as e:
        print("INCONCLUSIVE property=%s: %s" % (prop, e))
        write_evidence(prop, tier, seed, sel, {}, t_start, inconclusive=str(e))
        return 2
    print("[%s %s] %d harness instances, codegen %.1fs" % (prop, tier, len(sel), t_codegen), flush=True)
    pool = MemPool(MEM_TOTAL_GB, args.jobs)
    lock = threading.Lock()
    default_timeout = TIMEOUTS[tier]

    def work(inst):
        name = pl.full_name(inst)
        h = meta.get(name)
        mem = inst["mem"] if tier == "quick" else max(inst["mem"], inst["mem"] * 2 if inst["mem"] >= 10 else inst["mem"])
        rec = {"inst": inst, "mem_gb": mem}
        if h is None:
            rec.update(verdict="inconclusive", cls={"verdict": "inconclusive", "reasons": ["harness missing from kani metadata"], "failed": [], "notes": [], "covers": []})
            with lock:
                results[inst["name"]] = rec
            return
        want_stubs = sorted(o for o, _ in inst["stubs"])
        got_stubs = sorted(s.get("original", "") if isinstance(s, dict) else str(s) for s in h["attributes"].get("stubs", []))
        pool.acquire(mem)
        try:
            t0 = time.time()
            try:
                goto = pl.prepare_goto(h, log)
            except pl.Inconclusive as e:
                rec.update(cls={"verdict": "inconclusive", "reasons": [str(e)], "failed": [], "notes": [], "covers": []})
                with lock:
                    results[inst["name"]] = rec
                return
            jf = goto + ".json"
            to = inst["timeout"] or default_timeout
            if tier == "thorough" and inst["timeout"]:
                to = max(inst["timeout"] * 3, default_timeout)
            if args.timeout:
                to = args.timeout
            rc, wall = pl.run_cbmc(goto, h["attributes"].get("unwind_value"), to, mem, jf)
            parsed = pl.parse_results(jf)
            cls = classify(inst, parsed, rc, prop)
            if len(want_stubs) != len(got_stubs):
                cls["verdict"] = "inconclusive"
                cls["reasons"].append("stub not applied: wanted %s, kani recorded %s" % (want_stubs, got_stubs))
            rec.update(goto=goto, rc=rc, wall=wall, parsed=parsed, cls=cls, prep=time.time() - t0 - wall,
                       unwind=h["attributes"].get("unwind_value"), stubs=got_stubs)
        finally:
            pool.release(mem)
        with lock:
            results[inst["name"]] = rec
            c = rec["cls"]
            print("  %-44s %-12s %6.1fs  checks %d/%d  %s" % (
                inst["name"], c["verdict"].upper(), rec.get("wall", 0), c.get("n_success", 0), c.get("n_checks", 0),
                ("; ".join(c["reasons"] + ["FAILED: " + x["desc"] + " @" + str(x["loc"].get("file", ""))[-30:] + ":" + str(x["loc"].get("line", "")) for x in c.get("failed", [])])[:360])), flush=True)

    order = sorted(sel, key=lambda i: -(i["mem"] * 1000 + (i["timeout"] or 0)))
    threads = []
    for inst in order:
        th = threading.Thread(target=work, args=(inst,))
        th.start()
        threads.append(th)
    for th in threads:
        th.join()

    # ---- verdict
    violations, known_hits, inconclusive, notes = [], [], [], []
    for name, rec in sorted(results.items()):
        c = rec["cls"]
        for n in c.get("notes", []):
            notes.append((name, n))
        if c["verdict"] == "inconclusive":
            inconclusive.append((name, "; ".join(c["reasons"])))
        for r in c.get("failed", []):
            k = match_known(known, prop, rec["inst"], r)
            if k:
                known_hits.append((name, r, k))
            else:
                violations.append((name, r))
    for name, n in notes[:20]:
        print("NOTE: %s also failed a check of another property: %s" % (name, n["desc"]))

    seen = set()
    for name, r, k in known_hits:
        key = (k.get("id"),)
        if key in seen:
            continue
        seen.add(key)
        print("KNOWN-FINDING: property=%s %s" % (prop, k["what"]))

    confirmed, unconfirmed = [], []
    if violations:
        # replay before reporting: one counterexample per (harness, failing check)
        done = set()
        for name, r in violations:
            if (name, r["property"]) in done or len(done) >= args.max_replays:
                continue
            done.add((name, r["property"]))
            rec = results[name]
            print("  replaying %s / %s ..." % (name, r["desc"][:80]), flush=True)
            try:
                rep = rp.replay_counterexample(root, rec, r, sel, log, prop)
            except Exception as e:  # noqa
                rep = {"reproduced": False, "why": "replay machinery error: %r" % (e,)}
            if rep.get("reproduced"):
                confirmed.append((name, r, rep))
            else:
                unconfirmed.append((name, r, rep))

    ev_extra = {}
    rc_final = 0
    if confirmed:
        for name, r, rep in confirmed:
            print("VIOLATION property=%s replay=%s" % (prop, rep["path"]))
            print("    harness %s: %s" % (name, r["desc"]))
            vn = rep.get("values_named") or []
            print("    %d solver-chosen values replayed natively (%s ...)" % (len(vn), ", ".join(vn[:8])))
        rc_final = 1
    elif violations and not unconfirmed:
        print("INCONCLUSIVE property=%s: %d failing check(s) were not replayed" % (prop, len(violations)))
        rc_final = 2
    elif unconfirmed:
        for name, r, rep in unconfirmed:
            print("INCONCLUSIVE property=%s: solver counterexample for '%s' in %s did not reproduce natively (%s)"
                  % (prop, r["desc"], name, rep.get("why")))
        rc_final = 2
    elif inconclusive:
        for name, why in inconclusive:
            print("INCONCLUSIVE property=%s: %s: %s" % (prop, name, why))
        rc_final = 2
    write_evidence(prop, tier, seed, sel, results, t_start, violations=len(confirmed),
                   known_hits=known_hits, inconclusive=inconclusive, unconfirmed=unconfirmed,
                   t_codegen=t_codegen, stub_lines=stub_lines)
    if rc_final == 0:
        print("OK property=%s tier=%s: %d queries discharged, wall %.0fs" % (prop, tier, len(results), time.time() - t_start))
    return rc_final


def avt_functions(parsed):
    fs = set()
    for r in parsed["results"]:
        f = r["func"]
        if not f or "kverif" in f or f.startswith("kv::"):
            continue
        if re.match(r"^(terminal|parser|buffer|line|tabs|pen|cell|charset|color|vt|util)::", f) or f.startswith("<terminal") or f.startswith("<buffer") or f.startswith("<line") or f.startswith("<parser"):
            fs.add(f)
    return fs


def write_evidence(prop, tier, seed, sel, results, t_start, violations=0, known_hits=(), inconclusive=None,
                   unconfirmed=(), t_codegen=0.0, stub_lines=()):
    os.makedirs(os.path.join(VERIF, "evidence"), exist_ok=True)
    queries, samples = [], []
    funcs = set()
    tot_checks = tot_succ = tot_tagged = 0
    nontrivial = 0
    solver_s = symex_s = 0.0
    ssa_steps = vccs = 0
    for name, rec in sorted(results.items()):
        c = rec["cls"]
        parsed = rec.get("parsed") or {"results": [], "stats": {}}
        funcs |= avt_functions(parsed)
        st = parsed.get("stats", {})
        ssa_steps += st.get("ssa_steps", 0)
        vccs += st.get("vccs_generated", 0)
        solver_s += st.get("solver_s", 0.0)
        symex_s += st.get("symex_s", 0.0)
        tot_checks += c.get("n_checks", 0)
        tot_succ += c.get("n_success", 0)
        tot_tagged += c.get("n_tagged_prop", 0)
        covers_ok = all(x["satisfied"] or not x.get("reachable", True) or x["desc"] in rec["inst"]["optional_covers"] for x in c.get("covers", []))
        if c["verdict"] == "pass" and covers_ok and c.get("covers") and c.get("n_tagged_prop", 0) > 0:
            nontrivial += 1
        q = {
            "harness": name,
            "template_call": rec["inst"]["call"],
            "what": rec["inst"]["desc"],
            "bounds": rec["inst"]["bounds"],
            "unwind": rec.get("unwind"),
            "stubs": rec.get("stubs", []),
            "verdict": c["verdict"],
            "reasons": c.get("reasons", []),
            "cbmc_checks": c.get("n_checks", 0),
            "cbmc_checks_successful": c.get("n_success", 0),
            "assertions_of_this_property": c.get("n_tagged_prop", 0),
            "covers": c.get("covers", []),
            "wall_s": round(rec.get("wall", 0.0), 1),
            "symex_s": round(st.get("symex_s", 0.0), 1),
            "solver_s": round(st.get("solver_s", 0.0), 1),
            "solver_calls": st.get("solver_calls", 0),
            "formula": st.get("formula", ""),
            "mem_cap_gb": rec.get("mem_gb"),
        }
        queries.append(q)
    for q in queries[:6]:
        samples.append({k: q[k] for k in ("harness", "template_call", "what", "bounds", "unwind", "verdict", "cbmc_checks", "solver_s")})
    if not samples:
        samples = [{"note": "no query was run", "reason": str(inconclusive)}]
    ev = {
        "property_id": prop,
        "tier": tier,
        "seed": seed,
        "level": "model_checking",
        "coverage": {
            "evaluations": max(len(queries), 1),
            "distinct_nontrivial": nontrivial,
            "rule": "one evaluation = one bounded-model-checking query (one harness instance: template + concrete geometry) "
                    "decided by CBMC/cadical over all values of its symbolic inputs; counted as non-trivial when it passed, "
                    "asserted at least one check tagged with this property and every vacuity cover of the harness was SATISFIED",
            "samples": samples,
            # bounded model checking of the implementation itself: the "model" is the goto-program Kani compiles from
            # /repo's sources, so the model-checking counts are those of CBMC's symbolic execution
            "states": max(ssa_steps, 1),
            "transitions": max(vccs, 1),
            "traces_validated_against_impl": len(unconfirmed) + violations,
            "explanation": "states = SSA steps of the unrolled goto-programs (symbolic program states explored by CBMC's symbolic execution, summed over "
                           "the queries of this run); transitions = verification conditions generated from them; traces_validated_against_impl = solver "
                           "counterexample traces re-executed natively against the real code in this run (none on a tree where the property holds). "
                           "Each symbolic state stands for every concrete state of the instance's geometry that satisfies the invariant.",
            "obligations": tot_checks,
            "discharged": tot_succ,
            "assertions_of_this_property": tot_tagged,
            "queries": queries,
            "functions_encoded": sorted(funcs),
            "exhaustive": False,
            "solver_time_s": round(solver_s, 1),
            "symex_time_s": round(symex_s, 1),
            "codegen_s": round(t_codegen, 1),
            "checker_cmd": "cargo kani --only-codegen -Z stubbing (kani 0.68.0) ; goto-cc ; goto-instrument ; cbmc 6.11 --sat-solver cadical --unwind N (unwinding assertions on)",
            "known_findings_matched": [k["id"] for _, _, k in known_hits],
            "inconclusive": [{"harness": n, "why": w} for n, w in (inconclusive or [])] if not isinstance(inconclusive, str) else [{"why": inconclusive}],
            "unconfirmed_counterexamples": [{"harness": n, "check": r["desc"], "why": rep.get("why")} for n, r, rep in unconfirmed],
        },
        "assumptions": [
            "bounded: every claim is for the geometry / list-length bounds listed per query; nothing is claimed outside them",
            "pre-states are arbitrary states satisfying the representation invariants InvT / InvP of DESIGN.md section 3 (proved inductive by the same harness families)",
            "Kani's model of the Rust standard library and allocator (no allocation failure); stubs listed per query",
            "encoding regenerated from /repo's working tree on this run (sources copied to a scratch crate, harness child modules appended under cfg(kani))",
        ] + [s.strip() for s in stub_lines][:10],
        "wall_s": round(time.time() - t_start, 1),
        "violations": violations,
    }
    if prop == "ALL" or PARTIAL_RUN or os.environ.get("KV_NO_EVIDENCE"):
        return
    path = os.path.join(VERIF, "evidence", prop + ".json")
    tmp = path + ".tmp"
    json.dump(ev, open(tmp, "w"), indent=1)
    os.replace(tmp, path)


def main(argv):
    if argv and argv[0] == "setup":
        return setup()
    if argv and argv[0] == "replay":
        return rp.replay_file(argv[1])
    ap = argparse.ArgumentParser()
    ap.add_argument("prop")
    ap.add_argument("tier", nargs="?", default=os.environ.get("VERIF_TIER", "quick"))
    ap.add_argument("--only")
    ap.add_argument("--jobs", type=int, default=MAX_JOBS)
    ap.add_argument("--keep", action="store_true")
    ap.add_argument("--list", action="store_true")
    ap.add_argument("--max-replays", type=int, default=3)
    ap.add_argument("--timeout", type=int, default=0, help="override the per-harness time cap (development)")
    ap.add_argument("--names-file", help="run only the instances named in this file (development)")
    args = ap.parse_args(argv)
    if args.tier not in ("quick", "thorough"):
        print("tier must be quick or thorough")
        return 2
    global PARTIAL_RUN
    if args.names_file:
        names = set(open(args.names_file).read().split())
        args.only = "^(" + "|".join(re.escape(n) for n in sorted(names)) + ")$"
    if args.only:
        PARTIAL_RUN = True
    if args.list:
        for i in select(args.prop, args.tier, args.only):
            print(i["name"], "|", i["call"], "|", i["desc"])
        return 0
    return run_property(args.prop, args.tier, args)


def setup():
    import subprocess
    ok = True
    for tool in (["cargo", "kani", "--version"], ["cbmc", "--version"], ["goto-cc", "--version"], ["goto-instrument", "--version"]):
        try:
            r = subprocess.run(tool, stdout=subprocess.PIPE, stderr=subprocess.STDOUT, text=True, env=pl.env_offline())
            print(" ".join(tool), "->", r.stdout.strip().splitlines()[0] if r.stdout.strip() else r.returncode)
            ok = ok and r.returncode == 0
        except FileNotFoundError:
            print("missing tool:", tool[0])
            ok = False
    os.makedirs(os.path.join(VERIF, "evidence"), exist_ok=True)
    os.makedirs(os.path.join(VERIF, "replays"), exist_ok=True)
    return 0 if ok else 1
