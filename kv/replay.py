"""Replay before reporting: turn the solver's assignment into a native execution of the same
harness body against the real code (no stubs, ordinary rustc, dev profile = what Kani models,
and release profile = what users run)."""
import hashlib
import json
import os
import shutil
import subprocess
import time

from . import pipeline as pl

VERIF = pl.VERIF


def extract_values(trace):
    vals = []
    for s in trace:
        if s.get("stepType") != "assignment":
            continue
        # the value a kv::any_* call returned (the local `kv_nondet` is also "assigned" once at its
        # declaration with an arbitrary value, so the return-value assignment is the reliable one)
        if not str(s.get("lhs", "")).startswith("goto_symex$$return_value$$"):
            continue
        fn = (s.get("sourceLocation") or {}).get("function", "")
        if not fn.startswith("kv::imp::any_"):
            continue
        v = s.get("value", {})
        b = v.get("binary")
        if b is None:
            d = str(v.get("data", "0")).upper()
            val = 1 if d == "TRUE" else 0
        else:
            val = int(b, 2)
        vals.append((fn.rsplit("::", 1)[-1], val))
    return vals


def get_trace(rec, r, log, timeout):
    goto = rec["goto"]
    jf = goto + ".trace.json"
    extra = ["--trace", "--property", r["property"]]
    # no formula slicing here: a sliced formula leaves nondet values outside the failing check's cone
    # unassigned in the trace, and the replay needs every value in call order
    rc, wall = pl.run_cbmc(goto, rec.get("unwind"), timeout, max(rec.get("mem_gb", 8) * 2, 16), jf, extra, slice_formula=False)
    try:
        data = json.load(open(jf))
    except Exception:
        return None, "trace run produced no parsable output (rc=%s)" % (rc,)
    for item in data:
        if isinstance(item, dict) and "result" in item:
            for x in item["result"]:
                if x.get("property") == r["property"] and "trace" in x:
                    return x["trace"], None
    return None, "no trace for the failing check (rc=%s)" % (rc,)


def native_prepare(root, instances, log):
    """adds the dispatcher + runner binary to the scratch crate (idempotent)"""
    crate = os.path.join(root, "crate")
    marker = os.path.join(crate, ".kv_native")
    if os.path.exists(marker):
        return
    arms = []
    for i in instances:
        arms.append('        "%s" => %s(),' % (i["name"], pl.full_name(i)))
    with open(os.path.join(crate, "src", "lib.rs"), "a") as f:
        f.write("""
#[cfg(kverif_replay)]
pub fn kverif_replay_run(name: &str, values: &[u64]) {
    kv::replay_load(values);
    match name {
%s
        _ => panic!("KV_REPLAY: unknown harness"),
    }
}
#[cfg(kverif_replay)]
pub fn kverif_replay_failed() -> bool {
    kv::replay_failed()
}
""" % "\n".join(arms))
    os.makedirs(os.path.join(crate, "src", "bin"), exist_ok=True)
    with open(os.path.join(crate, "src", "bin", "kvreplay.rs"), "w") as f:
        f.write("""fn main() {
    let mut args = std::env::args().skip(1);
    let name = args.next().expect("harness name");
    let values: Vec<u64> = args.map(|a| a.parse().expect("u64")).collect();
    avt::kverif_replay_run(&name, &values);
    if avt::kverif_replay_failed() {
        eprintln!("KV_REPLAY: at least one harness assertion failed");
        std::process::exit(101);
    }
    println!("KV_REPLAY: harness body completed without a failed assertion");
}
""")
    open(marker, "w").write("1")


def native_run(root, name, values, log, release):
    crate = os.path.join(root, "crate")
    env = pl.env_offline()
    env["RUSTFLAGS"] = "--cfg kverif_replay -C overflow-checks=%s -A warnings" % ("off" if release else "on")
    env["CARGO_TARGET_DIR"] = os.path.join(root, "native")
    cmd = ["cargo", "build", "--offline", "--bin", "kvreplay"] + (["--release"] if release else [])
    r = subprocess.run(cmd, cwd=crate, env=env, stdout=subprocess.PIPE, stderr=subprocess.STDOUT, text=True)
    log.write("$ " + " ".join(cmd) + "\n" + r.stdout[-4000:] + "\n")
    if r.returncode != 0:
        return None, "native build failed: " + r.stdout[-600:]
    exe = os.path.join(root, "native", "release" if release else "debug", "kvreplay")
    try:
        p = subprocess.run([exe, name] + [str(v) for v in values], stdout=subprocess.PIPE,
                           stderr=subprocess.STDOUT, text=True, timeout=120)
    except subprocess.TimeoutExpired:
        return None, "native replay timed out"
    return p, None


def judge(p, desc, strict=False):
    """did the native run fail the way the solver said?"""
    out = p.stdout
    if "KV_REPLAY: assumption violated" in out or "ran out of recorded values" in out:
        return False, "replay diverged from the solver's path: " + out.strip().splitlines()[-1][:200] if out.strip() else "diverged"
    if p.returncode == 0:
        return False, "native run completed without failing"
    # a panic: either our tagged assertion or a panic inside avt (index, overflow, unwrap...)
    key = desc.split("]")[-1].strip()[:40]
    if key and any(("KV_ASSERT_FAILED" in l or "panicked" in l or key in l) and key in l for l in out.splitlines()):
        return True, "same assertion failed natively"
    if key and key in out:
        return True, "same assertion failed natively"
    failed = [l for l in out.splitlines() if "KV_ASSERT_FAILED" in l]
    if failed and "panicked at" not in out:
        return False, "only other harness assertions failed natively: " + failed[0][:160]
    if "panicked at" in out:
        line = [l for l in out.splitlines() if "panicked at" in l][0]
        if strict and "kverif" in line:
            return False, "a different harness assertion failed natively (harness uses stubs of avt functions): " + line[:160]
        return True, "native run panicked: " + line[:200]
    return False, "native run exited %s without a recognisable panic" % p.returncode


def replay_counterexample(root, rec, r, sel, log, prop):
    inst = rec["inst"]
    trace, why = get_trace(rec, r, log, timeout=max(600, int(rec.get("wall", 0) * 3 + 120)))
    if trace is None:
        return {"reproduced": False, "why": why}
    vals = extract_values(trace)
    values = [v for _, v in vals]
    native_prepare(root, sel, log)
    outcome = {}
    for release in (False, True):
        p, err = native_run(root, inst["name"], values, log, release)
        if p is None:
            return {"reproduced": False, "why": err, "values": values}
        strict = any(not o.startswith("core::") for o, _ in inst.get("stubs", []))
        ok, why = judge(p, r["desc"], strict)
        outcome["release" if release else "dev"] = {"reproduced": ok, "why": why, "tail": p.stdout[-1500:]}
    reproduced = outcome["dev"]["reproduced"] or outcome["release"]["reproduced"]
    rep = {
        "property": prop,
        "harness": inst["name"],
        "instance": {k: inst[k] for k in ("name", "module", "call", "unwind", "stubs", "desc", "bounds")},
        "failed_check": {"cbmc_property": r["property"], "description": r["desc"], "location": r.get("loc")},
        "values": values,
        "values_named": ["%s=%d" % (t, v) for t, v in vals],
        "native": outcome,
        "how_to_rerun": "./check replay <this file>   (rebuilds the scratch crate from /repo's working tree and re-executes the harness body natively with these values)",
        "reproduced": reproduced,
        "why": outcome["dev"]["why"] if not reproduced else "",
    }
    if reproduced:
        os.makedirs(os.path.join(VERIF, "replays"), exist_ok=True)
        hsh = hashlib.sha1(json.dumps([inst["name"], r["desc"], values]).encode()).hexdigest()[:10]
        path = os.path.join(VERIF, "replays", "%s-%s-%s.json" % (prop, inst["name"], hsh))
        json.dump(rep, open(path, "w"), indent=1)
        rep["path"] = path
    return rep


def replay_file(path):
    rep = json.load(open(path))
    inst = dict(rep["instance"])
    # prefer the current definition of the same instance (the template signature may have gained parameters)
    from . import registry
    for i in registry.INSTANCES:
        if i["name"] == inst["name"]:
            inst = dict(i)
            break
    inst.setdefault("props", {})
    inst.setdefault("optional_covers", [])
    root = pl.make_scratch([inst])
    try:
        with open(os.devnull, "w") as log:
            native_prepare(root, [inst], log)
            allok = False
            for release in (False, True):
                p, err = native_run(root, inst["name"], rep["values"], log, release)
                if p is None:
                    print("replay could not run:", err)
                    return 2
                ok, why = judge(p, rep["failed_check"]["description"])
                print("[%s] %s: %s" % ("release" if release else "dev", "REPRODUCED" if ok else "not reproduced", why))
                print("\n".join("    " + l for l in p.stdout.strip().splitlines()[-6:]))
                allok = allok or ok
        if allok:
            print("VIOLATION property=%s replay=%s" % (rep["property"], path))
            return 1
        return 0
    finally:
        shutil.rmtree(root, ignore_errors=True)
