"""Scratch-crate preparation, Kani code generation and the goto-cc / goto-instrument / CBMC
pipeline (the same commands `cargo kani --verbose` prints), run per harness with our own
time and memory caps, and parsing of CBMC's JSON results.

Nothing here decides a property: it produces, per harness, the list of CBMC property
results (status per assertion / cover / built-in check) plus solver statistics.
"""
import glob
import json
import os
import re
import resource
import shutil
import subprocess
import tempfile
import time

REPO = os.environ.get("KV_REPO", "/repo")
VERIF = os.path.dirname(os.path.dirname(os.path.abspath(__file__)))
HARNESS_DIR = os.path.join(VERIF, "harness")


def _kani_home():
    cands = sorted(glob.glob(os.path.expanduser("~/.kani/kani-*")))
    if not cands:
        raise RuntimeError("no Kani installation under ~/.kani")
    return cands[-1]


KANI_HOME = _kani_home()
KANI_LIB_C = os.path.join(KANI_HOME, "library", "kani", "kani_lib.c")

# source file (relative to src/) -> (module path in the crate, harness file name)
MODULES = {
    "tabs": ("tabs.rs", "tabs"),
    "parser": ("parser.rs", "parser"),
    "pen": ("pen.rs", "pen"),
    "charset": ("charset.rs", "charset"),
    "line": ("line.rs", "line"),
    "buffer": ("buffer.rs", "buffer"),
    "dirty_lines": ("terminal/dirty_lines.rs", "terminal::dirty_lines"),
    "terminal": ("terminal.rs", "terminal"),
    "vt": ("vt.rs", "vt"),
    "kv": (None, "kv"),  # harness support module itself (crate::kv = harness/common.rs)
}


class Inconclusive(Exception):
    pass


def env_offline():
    e = dict(os.environ)
    e["CARGO_NET_OFFLINE"] = "true"
    e.pop("RUSTFLAGS", None)
    e.pop("RUSTUP_TOOLCHAIN", None)
    return e


def make_scratch(instances, keep=False):
    """Copy /repo's *working tree* sources to a fresh directory and hang the harness modules
    under the modules they need to see into.  Returns the scratch root."""
    root = tempfile.mkdtemp(prefix="avt-kverif-")
    crate = os.path.join(root, "crate")
    os.makedirs(crate)
    shutil.copy(os.path.join(REPO, "Cargo.lock"), crate)
    shutil.copytree(os.path.join(REPO, "src"), os.path.join(crate, "src"))
    toml = open(os.path.join(REPO, "Cargo.toml")).read()
    # bench targets point at files we do not copy; dev-dependencies are not needed for the lib
    toml = re.sub(r"\[\[bench\]\][^\[]*", "", toml)
    toml = re.sub(r"\[dev-dependencies\][^\[]*", "", toml)
    toml += '\n[workspace]\n\n[lints.rust]\nunexpected_cfgs = { level = "allow" }\n'
    open(os.path.join(crate, "Cargo.toml"), "w").write(toml)
    # the lock file must stay consistent with the trimmed manifest: cargo prunes unused
    # entries itself (offline, nothing to fetch).
    kdir = os.path.join(crate, "src", "kverif")
    os.makedirs(kdir)
    for f in os.listdir(HARNESS_DIR):
        if f.endswith(".rs"):
            shutil.copy(os.path.join(HARNESS_DIR, f), kdir)
    by_mod = {}
    for i in instances:
        by_mod.setdefault(i["module"], []).append(i)
    for mod, (src, _path) in MODULES.items():
        hfile = os.path.join(kdir, ("common" if mod == "kv" else mod) + ".rs")
        if not os.path.exists(hfile):
            continue
        gen = []
        for i in by_mod.get(mod, []):
            gen.append(render_instance(i))
        open(os.path.join(kdir, mod + "_gen.rs"), "w").write("\n".join(gen) + "\n")
        if src is None:
            continue
        with open(os.path.join(crate, "src", src), "a") as f:
            f.write('\n#[cfg(any(kani, kverif_replay))] #[path = "%s"] pub(crate) mod kverif;\n' % hfile)
    with open(os.path.join(crate, "src", "lib.rs"), "a") as f:
        f.write('\n#[cfg(any(kani, kverif_replay))] #[path = "%s"] pub(crate) mod kv;\n'
                % os.path.join(kdir, "common.rs"))
    return root


def render_instance(i):
    attrs = ["#[cfg_attr(kani, kani::proof)]"]
    if i.get("unwind"):
        attrs.append("#[cfg_attr(kani, kani::unwind(%d))]" % i["unwind"])
    for orig, repl in i.get("stubs", ()):
        attrs.append("#[cfg_attr(kani, kani::stub(%s, %s))]" % (orig, repl))
    return "%s\npub(crate) fn %s() { %s }\n" % ("\n".join(attrs), i["name"], i["call"])


def full_name(i):
    if i["module"] == "kv":
        return "kv::" + i["name"]
    return "%s::kverif::%s" % (MODULES[i["module"]][1], i["name"])


def codegen(root, instances, log):
    """One `cargo kani --only-codegen` for all selected harnesses; returns {name: metadata}."""
    crate = os.path.join(root, "crate")
    target = os.path.join(root, "target")
    cmd = ["cargo", "kani", "--only-codegen", "-Z", "stubbing", "--target-dir", target, "--exact"]
    if not os.environ.get("KV_REACH"):
        # Kani's per-assertion reachability covers double the number of SAT calls; vacuity is guarded
        # by the harnesses' own cover witnesses instead (KV_REACH=1 switches them back on)
        cmd.append("--no-assertion-reach-checks")
    for i in instances:
        cmd += ["--harness", full_name(i)]
    t0 = time.time()
    r = subprocess.run(cmd, cwd=crate, env=env_offline(), stdout=subprocess.PIPE,
                       stderr=subprocess.STDOUT, text=True)
    log.write("$ " + " ".join(cmd) + "\n" + r.stdout + "\n")
    if r.returncode != 0:
        errs = [l for l in r.stdout.splitlines() if l.startswith("error")]
        raise Inconclusive("harnesses do not compile against the current /repo sources: "
                           + "; ".join(errs[:5]))
    mds = glob.glob(os.path.join(target, "kani", "*", "debug", "build", "avt", "*", "out",
                                 "*.kani-metadata.json"))
    if not mds:
        raise Inconclusive("kani produced no metadata")
    md = json.load(open(max(mds, key=os.path.getmtime)))
    out = {}
    for h in md["proof_harnesses"]:
        out[h["pretty_name"]] = h
    stub_lines = [l for l in r.stdout.splitlines() if "Stub:" in l]
    return out, time.time() - t0, stub_lines


CBMC_FLAGS = ["--no-malloc-may-fail", "--no-undefined-shift-check", "--no-signed-overflow-check",
              "--nan-check", "--no-self-loops-to-assumptions", "--no-pointer-primitive-check",
              "--object-bits", "16"]


def prepare_goto(h, log):
    sym = h["goto_file"]
    o = sym.replace(".symtab.out", ".kv.out")

    def sh(args):
        r = subprocess.run(args, stdout=subprocess.PIPE, stderr=subprocess.STDOUT, text=True)
        if r.returncode != 0:
            log.write(r.stdout[-3000:])
            raise Inconclusive("goto step failed: " + " ".join(args[:2]))

    sh(["goto-cc", sym, KANI_LIB_C, "-o", o])
    sh(["goto-cc", o, "--function", h["mangled_name"], "-o", o])
    sh(["goto-instrument", "--add-library", "--no-malloc-may-fail", o, o])
    sh(["goto-instrument", "--generate-function-body-options", "assert-false-assume-false",
        "--generate-function-body", ".*", "--drop-unused-functions", o, o])
    sh(["goto-instrument", "--ensure-one-backedge-per-target", o, o])
    return o


def cbmc_cmd(goto, unwind, extra=(), slice_formula=True):
    cmd = ["cbmc"] + CBMC_FLAGS
    if unwind:
        cmd += ["--unwind", str(unwind)]
    cmd += ["--sat-solver", "cadical"] + (["--slice-formula"] if slice_formula else []) + [goto, "--verbosity", "9", "--json-ui"]
    cmd += list(extra)
    return cmd


def run_cbmc(goto, unwind, timeout, mem_gb, out_json, extra=(), slice_formula=True):
    def lim():
        resource.setrlimit(resource.RLIMIT_AS, (mem_gb << 30, mem_gb << 30))
        os.setsid()

    t0 = time.time()
    with open(out_json, "w") as f:
        p = subprocess.Popen(cbmc_cmd(goto, unwind, extra, slice_formula), stdout=f, stderr=subprocess.STDOUT,
                             preexec_fn=lim)
        try:
            rc = p.wait(timeout=timeout)
        except subprocess.TimeoutExpired:
            try:
                os.killpg(p.pid, 9)
            except ProcessLookupError:
                pass
            p.wait()
            rc = "timeout"
    return rc, time.time() - t0


PROP_RE = re.compile(r"^(?P<func>.*)\.(?P<cls>[a-z_A-Z]+)\.(?P<n>\d+)$")
KANI_ID_RE = re.compile(r"^\[KANI_CHECK_ID_[^\]]*\]\s*")
TAG_RE = re.compile(r"\[(C\d{2,3}|VAC|FR)\]")


def parse_results(json_path):
    """Returns dict(status=..., results=[...], stats={...}) from CBMC's --json-ui output."""
    try:
        data = json.load(open(json_path))
    except Exception:
        # truncated output (killed / out of memory): recover what we can
        return {"status": "unparsable", "results": [], "stats": {}}
    results, status, stats = [], None, {"symex_s": 0.0, "solver_s": 0.0, "solver_calls": 0}
    vcc = None
    for item in data:
        if not isinstance(item, dict):
            continue
        if "result" in item:
            for r in item["result"]:
                m = PROP_RE.match(r.get("property", ""))
                raw = r.get("description", "")
                mid = re.match(r"^\[(KANI_CHECK_ID_[^\]]*)\]", raw)
                desc = KANI_ID_RE.sub("", raw).strip()
                if desc.startswith('"') and desc.endswith('"'):
                    desc = desc[1:-1]
                results.append({
                    "property": r.get("property", ""),
                    "func": m.group("func") if m else "",
                    "cls": m.group("cls") if m else "",
                    "status": r.get("status"),
                    "desc": desc,
                    "loc": (r.get("sourceLocation") or {}),
                    "tags": TAG_RE.findall(desc),
                    "kani_id": mid.group(1) if mid else (raw.strip() if raw.startswith("KANI_CHECK_ID") else None),
                })
        elif "cProverStatus" in item:
            status = item["cProverStatus"]
        elif "messageText" in item:
            t = item["messageText"]
            if t.startswith("Runtime Symex:"):
                stats["symex_s"] += float(t.split(":")[1].strip().rstrip("s"))
            elif t.startswith("Runtime Solver:"):
                stats["solver_s"] += float(t.split(":")[1].strip().rstrip("s"))
                stats["solver_calls"] += 1
            elif "VCC(s)" in t and "remaining after simplification" in t:
                vcc = t
                m = re.match(r"Generated (\d+) VCC\(s\), (\d+) remaining", t)
                if m:
                    stats["vccs_generated"] = int(m.group(1))
                    stats["vccs_remaining"] = int(m.group(2))
            elif t.startswith("size of program expression:"):
                m = re.search(r"(\d+) steps", t)
                if m:
                    stats["ssa_steps"] = int(m.group(1))
            elif "variables" in t and "clauses" in t:
                stats["formula"] = t
            elif "out of memory" in t.lower():
                stats["oom"] = True
    if vcc:
        stats["vccs"] = vcc
    return {"status": status or "none", "results": results, "stats": stats}
