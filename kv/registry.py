"""Harness instances.  An instance = one template (a Rust function in /verif/harness/<module>.rs)
called with concrete geometry arguments; the solver decides it for all values of its symbolic
part.  `props` maps a property id to the tier in which the instance belongs to that property's
run ('quick' instances are also part of 'thorough').
"""

INSTANCES = []
_names = set()

ROTATE_STUB = ("core::slice::rotate::ptr_rotate", "crate::kv::stub_ptr_rotate")


def inst(name, module, call, unwind, props, stubs=(), timeout=None, mem=6, desc="", bounds="",
         optional_covers=(), group=""):
    assert name not in _names, name
    _names.add(name)
    INSTANCES.append(dict(name=name, module=module, call=call, unwind=unwind, props=dict(props),
                          stubs=list(stubs), timeout=timeout, mem=mem, desc=desc, bounds=bounds,
                          optional_covers=list(optional_covers), group=group or name.split("__")[0]))


Q, T = "quick", "thorough"

# ----------------------------------------------------------------------------- C18 tabs
inst("tb_new", "tabs", "t_tb_new(41)", 8, {"C18": Q, "C01": Q},
     desc="Tabs::new(w) for every w in 1..=41: membership formula, strictly increasing",
     bounds="w<=41 (<=5 stops)")
for k in (0, 1, 3):
    inst("tb_expand__k%d" % k, "tabs", "t_tb_expand(%d, 40, 33)" % k, k + 8,
         {"C18": Q if k in (0, 3) else T, "C01": T},
         desc="Tabs::expand(a,b) from any G6 set of %d stops, a in 1..=40, b in a+1..=a+33" % k,
         bounds="old width<=40, growth<=33 columns, %d custom stops" % k)
for k in (1, 3, 5):
    inst("tb_contract__k%d" % k, "tabs", "t_tb_contract(%d, 48)" % k, k + 3,
         {"C18": Q if k == 3 else T, "C01": T},
         desc="Tabs::contract(b) from any G6 set of %d stops on width a<=48, any b<a" % k,
         bounds="width<=48, %d stops" % k)
for k in (0, 2, 4):
    for op, opn in ((0, "set"), (1, "unset"), (2, "clear")):
        if k == 0 and op != 0:
            continue
        inst("tb_edit__%s_k%d" % (opn, k), "tabs", "t_tb_edit(%d, 40, %d)" % (k, op), k + 4,
             {"C18": Q if k == 2 else T, "C01": T},
             desc="Tabs::%s at any column from any G6 set of %d stops" % (opn, k),
             bounds="width<=40, %d stops" % k)
for k in (0, 1, 2, 4):
    for fwd in (True, False):
        inst("tb_move__%s_k%d" % ("after" if fwd else "before", k), "tabs",
             "t_tb_move(%d, 40, %s)" % (k, "true" if fwd else "false"), k + 3,
             {"C18": Q if k in (2, 4) else T, "C01": Q if k == 4 else T},
             desc="Tabs::%s(pos,n): n-th stop in that direction, n in 1..=65535, pos incl. wrap-pending column"
                  % ("after" if fwd else "before"),
             bounds="width<=40, %d stops, n any u16>=1" % k)
for (a, b, c) in ((8, 17, 9), (80, 100, 80), (16, 8, 24), (7, 8, 9), (24, 25, 40), (80, 100, 120)):
    inst("tb_chain__%d_%d_%d" % (a, b, c), "tabs", "t_tb_chain(%d, %d, %d)" % (a, b, c), 18,
         {"C18": Q if a in (8, 80) and c in (9, 80) else T},
         desc="never-customised set, widths %d -> %d -> %d, equals Tabs::new(%d)" % (a, b, c, c),
         bounds="concrete widths")
