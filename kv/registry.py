"""Harness instances.  An instance = one template (a Rust function in /verif/harness/<module>.rs)
called with concrete geometry arguments; the solver decides it for all values of its symbolic
part.  `props` maps a property id to the tier in which the instance belongs to that property's
run ('quick' instances are also part of 'thorough').
"""

INSTANCES = []
_names = set()

ROTATE_STUB = ("core::slice::rotate::ptr_rotate", "crate::kv::stub_ptr_rotate")


def inst(name, module, call, unwind, props, stubs=(), timeout=None, mem=6, desc="", bounds="",
         optional_covers=(), group=""):
    assert name not in _names, name
    _names.add(name)
    INSTANCES.append(dict(name=name, module=module, call=call, unwind=unwind, props=dict(props),
                          stubs=list(stubs), timeout=timeout, mem=mem, desc=desc, bounds=bounds,
                          optional_covers=list(optional_covers), group=group or name.split("__")[0]))


Q, T = "quick", "thorough"

# ----------------------------------------------------------------------------- C18 tabs
inst("tb_new", "tabs", "t_tb_new(41)", 8, {"C18": Q, "C01": Q},
     desc="Tabs::new(w) for every w in 1..=41: membership formula, strictly increasing",
     bounds="w<=41 (<=5 stops)")
for k in (0, 1, 3):
    inst("tb_expand__k%d" % k, "tabs", "t_tb_expand(%d, 40, 33)" % k, k + 8,
         {"C18": Q if k in (0, 3) else T, "C01": T},
         desc="Tabs::expand(a,b) from any G6 set of %d stops, a in 1..=40, b in a+1..=a+33" % k,
         bounds="old width<=40, growth<=33 columns, %d custom stops" % k)
for k in (1, 3, 5):
    inst("tb_contract__k%d" % k, "tabs", "t_tb_contract(%d, 48)" % k, k + 3,
         {"C18": Q if k == 3 else T, "C01": T},
         desc="Tabs::contract(b) from any G6 set of %d stops on width a<=48, any b<a" % k,
         bounds="width<=48, %d stops" % k)
for k in (0, 2, 4):
    for op, opn in ((0, "set"), (1, "unset"), (2, "clear")):
        if k == 0 and op != 0:
            continue
        inst("tb_edit__%s_k%d" % (opn, k), "tabs", "t_tb_edit(%d, 40, %d)" % (k, op), k + 4,
             {"C18": Q if k == 2 else T, "C01": T}, optional_covers=["a new stop is set", "an existing stop is cleared"],
             desc="Tabs::%s at any column from any G6 set of %d stops" % (opn, k),
             bounds="width<=40, %d stops" % k)
for k in (0, 1, 2, 4):
    for fwd in (True, False):
        inst("tb_move__%s_k%d" % ("after" if fwd else "before", k), "tabs",
             "t_tb_move(%d, 40, %s)" % (k, "true" if fwd else "false"), k + 3,
             {"C18": Q if k in (2, 4) else T, "C01": Q if k == 4 else T},
             desc="Tabs::%s(pos,n): n-th stop in that direction, n in 1..=65535, pos incl. wrap-pending column"
                  % ("after" if fwd else "before"),
             bounds="width<=40, %d stops, n any u16>=1" % k,
             optional_covers=["ran past the last stop", "second next stop"] if k == 0 else (["second next stop"] if k == 1 else []))
for (a, b, c) in ((8, 17, 9), (80, 100, 80), (16, 8, 24), (7, 8, 9), (24, 25, 40), (80, 100, 120)):
    inst("tb_chain__%d_%d_%d" % (a, b, c), "tabs", "t_tb_chain(%d, %d, %d)" % (a, b, c), 18,
         {"C18": Q if a in (8, 80) and c in (9, 80) else T},
         desc="never-customised set, widths %d -> %d -> %d, equals Tabs::new(%d)" % (a, b, c, c),
         bounds="concrete widths")

# ----------------------------------------------------------------------------- parser (C03, C20, C01, C08, C19)
CLEAR_SPEC = [("Param::clear", "Param::kv_clear_spec")]
FEED_STUBS = CLEAR_SPEC + [("Parser::csi_dispatch", "Parser::kv_no_csi_dispatch")]
NO_LISTS = [("ansi_mode", "kv_no_ansi_mode"), ("dec_mode", "kv_no_dec_mode"),
            ("<SgrOps<'_> as core::iter::Iterator>::next", "SgrOps::kv_no_next")]
REC_STUBS = [("Parser::" + h, "Parser::kv_rec_" + h) for h in
             ("clear", "collect", "param", "execute", "esc_dispatch", "csi_dispatch", "put", "osc_put")]
inst("p_trans", "parser", "t_p_trans()", 8, {"C03": Q, "C20": Q, "C01": Q}, stubs=REC_STUBS,
     desc="Parser::feed: next state and kind of action vs the reference table, state and char both symbolic (14 x 1,112,064 entries), "
          "the eight action helpers replaced by recorders",
     bounds="all states, all Unicode scalar values, any intermediate")
inst("p_param_kernel", "parser", "t_p_param_kernel()", 8, {"C03": Q, "C01": Q},
     desc="Param::add_digit / add_part from any Param: decimal accumulation mod 2^16 without overflow, saturation at 6 sub-parameters",
     bounds="all u16 values, all digits")
inst("p_param_clear", "parser", "t_p_param_clear()", 8, {"C03": Q},
     desc="Param::clear from any Param satisfying zero-beyond", bounds="all Params")
inst("p_collect", "parser", "t_p_collect()", 8, {"C03": Q, "C20": Q},
     desc="collect / put / osc_put from any parser", bounds="all chars")
for cp in (0, 1, 5, 30, 31):   # 30: the last ';' that still advances (seed C03-f)
    u = max(cp + 3, 9)
    inst("p_param__cp%d" % cp, "parser", "t_p_param(%d)" % cp, u, {"C03": Q if cp in (1, 30, 31) else T, "C01": Q if cp == 31 else T},
         desc="Parser::param(c), c in '0'..=';', from any InvP parser with cur_param=%d: exactly one sub-parameter / index changes, saturation at 32 parameters" % cp,
         bounds="cur_param=%d, all values" % cp)
    inst("p_total__cp%d" % cp, "parser", "t_p_total(%d)" % cp, max(cp + 3, 34), {"C01": Q if cp in (1, 31) else T, "C03": T},
         desc="Parser::feed with the real helpers from any InvP parser (cur_param=%d), any state, any char except CSI dispatch finals: no panic, InvP preserved" % cp,
         bounds="cur_param=%d" % cp, stubs=FEED_STUBS)
for cp in (0, 2, 31):
    u = max(cp + 3, 9)
    inst("p_clear__cp%d" % cp, "parser", "t_p_clear(%d)" % cp, u, {"C03": Q if cp in (2, 31) else T}, stubs=CLEAR_SPEC if cp == 31 else (),
         desc="Parser::clear from any InvP parser with cur_param=%d is a full reset of all 32 parameters" % cp, bounds="cur_param=%d" % cp)
    inst("p_mem__cp%d" % cp, "parser", "t_p_mem(%d)" % cp, u, {"C03": Q if cp in (2, 31) else T},
         desc="feed(ESC | 0x9b | 0x90) from any InvP parser with cur_param=%d leaves all 32 params default (memoryless dispatch)" % cp,
         bounds="cur_param=%d" % cp, stubs=FEED_STUBS)
    inst("p_ris__cp%d" % cp, "parser", "t_p_ris(%d)" % cp, u, {"C19": Q if cp == 2 else T},
         desc="ESC c from any parser state returns Ris and leaves a parser equal to Parser::new()", bounds="cur_param=%d" % cp, stubs=CLEAR_SPEC)
    inst("p_csi_scalar__cp%d" % cp, "parser", "t_p_csi_scalar(%d)" % cp, u, {"C03": Q if cp == 2 else T, "C20": Q if cp == 2 else T, "C01": T},
         desc="csi_dispatch vs reference for every final, every intermediate / private marker, all parameter values (scalar functions)",
         bounds="cur_param=%d, all chars, all u16 parameters" % cp, stubs=NO_LISTS)
for cp in (0, 2):
    inst("p_fe__cp%d" % cp, "parser", "t_p_fe(%d)" % cp, 34, {"C03": T}, mem=20, timeout=1500,
         desc="ESC Fe (0x40..=0x5f) == C1 (0x80..=0x9f): same function, same state, same cleared params, from any parser", bounds="cur_param=%d" % cp, stubs=FEED_STUBS)
    inst("p_strings__cp%d" % cp, "parser", "t_p_strings(%d)" % cp, 34, {"C20": Q if cp == 2 else T, "C03": T},
         desc="OSC / DCS / SOS-PM-APC payload yields no function and stays in the string; ST, ESC \\\\ and BEL (OSC) end it in ground", bounds="cur_param=%d, all payload chars" % cp, stubs=FEED_STUBS)
inst("p_string_intro", "parser", "t_p_string_intro()", 34, {"C20": Q, "C03": T},
     desc="the five string kinds are entered by 7- and 8-bit introducers from any state", bounds="all states", stubs=FEED_STUBS)
inst("p_exec", "parser", "t_p_exec()", 8, {"C03": Q, "C20": Q},
     desc="execute(c) vs reference for every char", bounds="all chars")
inst("p_esc", "parser", "t_p_esc()", 8, {"C03": Q, "C20": Q},
     desc="esc_dispatch vs reference for every final and intermediate", bounds="all chars")
for cp in (0, 1, 3, 7):
    for private, set_, nm in ((False, True, "sm"), (False, False, "rm"), (True, True, "decset"), (True, False, "decrst")):
        quick = (cp == 1) or (cp == 3 and nm == "decset")
        inst("p_csi_modes__%s_cp%d" % (nm, cp), "parser", "t_p_csi_modes(%d, %s, %s)" % (cp, str(private).lower(), str(set_).lower()),
             max(cp + 3, 9), {"C03": Q if quick else T, "C01": T},
             desc="CSI %sh/l with %d parameters: list of recognised modes in order, unknown dropped" % ("? " if private else "", cp + 1),
             bounds="%d parameters, all u16 values" % (cp + 1), mem=8)
for k in (0, 1, 2):
    inst("p_sgr__k%d" % k, "parser", "t_p_sgr(%d)" % k, k + 3, {"C08": Q if k < 2 else T, "C03": T, "C01": Q if k == 1 else T},
         desc="SgrOps over %d parameters with any sub-parameters vs the statement's decoder (';' and ':' colour forms, unknown codes skipped)" % k,
         bounds="%d parameters, <= 6 sub-parameters each, all u16 values" % k, mem=10,
         optional_covers=["38;5;n list form", "38;2;r;g;b list form", "operation after an unknown code", "38:2::r:g:b sub-parameter form", "38:5:n sub-parameter form"])

inst("p_fe_table", "parser", "t_p_fe_table()", 4, {"C03": Q},
     desc="reference-table lemma: (Escape, Fe) and (any state, Fe+0x40) agree in next state and action kind; with p_trans and p_esc this is the ESC Fe == C1 clause",
     bounds="all states, all 32 Fe finals")
inst("p_sgr__k3_single", "parser", "t_p_sgr_shape(3, [0,0,0,0,0,0])", 6, {"C08": T, "C03": T},
     desc="SgrOps one-step lemma over 3 single-valued parameters (38;5;n list form and neighbours), all values symbolic",
     bounds="3 parameters", mem=12, timeout=1500,
     optional_covers=["38:2::r:g:b sub-parameter form", "38:5:n sub-parameter form", "38;5;n list form", "38;2;r;g;b list form", "operation after an unknown code"])
for skips in (0, 1, 2):
    inst("p_sgr_lead__s%d" % skips, "parser", "t_p_sgr_lead(6, %d)" % skips, skips + 2, {"C08": Q if skips < 2 else T, "C03": Q if skips == 0 else T, "C01": T},
         desc="SgrOps::next over 6 parameters: %d unknown single-valued parameters, then any well-formed operation in any spelling "
              "(';' and ':' colour forms); result and consumed count; loop bound %d proved by the unwinding assertion" % (skips, skips + 1),
         bounds="6 parameters with <= 6 sub-parameters each, all u16 values", mem=10,
         optional_covers=["38;2;r;g;b list form"] if skips == 2 else [])

# ----------------------------------------------------------------------------- terminal: operations that touch no cell
def tcfg(cols, rows, **kw):
    """Rust expression for a TCfg"""
    f = dict(sb=0, limit="None", alt=0, crow="SYM", ccol="SYM", top="SYM", bottom="SYM", parked_rows=0, parked_sb=0,
             tabs_k="SYM", fill="Fill::Sym", asrow="SYM", big="false", limit_any="false")
    f.update(kw)
    return ("TCfg { cols: %d, rows: %d, sb: %s, limit: %s, alt: %s, crow: %s, ccol: %s, top: %s, bottom: %s, "
            "parked_rows: %s, parked_sb: %s, tabs_k: %s, fill: %s, asrow: %s, limit_any: %s, big: %s }" % (
                cols, rows, f["sb"], f["limit"], f["alt"], f["crow"], f["ccol"], f["top"], f["bottom"],
                f["parked_rows"], f["parked_sb"], f["tabs_k"], f["fill"], f["asrow"], f["limit_any"], f["big"]))


def geo_desc(cols, rows, **kw):
    alt = {0: "primary", 1: "alternate", 2: "either screen"}[kw.get("alt", 0)]
    return "%dx%d (cols x rows), %s scrollback line(s), limit %s, %s active, cursor row %s, col %s, margins %s" % (
        cols, rows, kw.get("sb", 0), kw.get("limit", "None"), alt, kw.get("crow", "any"), kw.get("ccol", "any"),
        "any valid pair" if kw.get("top", "SYM") == "SYM" else "(%s,%s)" % (kw.get("top"), kw.get("bottom")))


CURSOR_OPS = ["Bs", "Cr", "Cuu", "Cud", "Cuf", "Cub", "Cnl", "Cpl", "Cha", "Cup", "Vpa", "Vpr",
              "LfOffMargin", "NelOffMargin", "RiOffMargin", "Decstbm", "OriginSet", "OriginReset"]
TAB_MOVE_OPS = ["Ht", "Cht", "Cbt"]
TAB_EDIT_OPS = ["Hts", "CtcSet", "CtcClearCol", "CtcClearAll", "TbcCol", "TbcAll"]
MODE_OPS = ["So", "Si", "Gzd4", "G1d4", "Sm", "Rm", "DecsetMisc", "DecrstMisc", "Ed3", "XtwinopsOff"]
SMALL_OPT = ["origin mode with a top margin", "start below the region", "start above the region"]


def nocell(op, cols, rows, props, tabs_k="SYM", alt=2, sb=1, suffix="", mem=8, optional=(), geo=None):
    kw = dict(sb=sb, alt=alt, tabs_k=tabs_k, limit="Some(1)")
    if geo:
        kw.update(crow=geo[0], top=geo[1], bottom=geo[2])
        suffix += "_r%d_m%d%d" % geo
    k = 0 if tabs_k == "SYM" else int(tabs_k)
    inst("nc_%s__%dx%d%s" % (op.lower(), cols, rows, suffix), "terminal",
         "t_nocell(%s, NoCellOp::%s)" % (tcfg(cols, rows, **kw), op), max(cols, rows + sb, k, 13) + 3, props, mem=mem,
         desc="execute(%s) from any InvT state: exact cursor/mode post-condition, no cell / mark / other state changes, InvT preserved" % op,
         bounds=geo_desc(cols, rows, **kw) + ("; %s tab stops" % tabs_k if tabs_k != "SYM" else "") + "; all u16 parameters",
         optional_covers=list(optional) + ["a parameter of 65535 on a very tall screen"])


MARGIN_OPS = {"LfOffMargin": "bottom", "NelOffMargin": "bottom", "RiOffMargin": "top"}
C02_QUICK_OPS = ("Cuu", "Cud", "Vpa")
for op in CURSOR_OPS:
    if op in MARGIN_OPS:
        # these reach the scrolling code when on the margin: cursor row and margins are constants of the
        # instance (all off-margin combinations of a 3-row screen); the on-margin cases are in the scroll family
        for (top, bottom) in ((0, 1), (0, 2), (1, 2)):
            for row in (0, 1, 2):
                if row == (bottom if MARGIN_OPS[op] == "bottom" else top):
                    continue
                quick = (row, top, bottom) in (((2, 1, 2), (1, 0, 2), (0, 1, 2)) if op == "RiOffMargin" else ((0, 1, 2), (2, 0, 1)))
                nocell(op, 4, 3, {"C05": Q if quick else T, "C02": T, "C01": Q if (op, row, top) == ("RiOffMargin", 0, 1) else T}, geo=(row, top, bottom), optional=SMALL_OPT)
        nocell(op, 1, 1, {"C05": T}, geo=(0, 0, 0), optional=SMALL_OPT + ["missing / zero parameter", "parameter 65535"]) if False else None
        continue
    nocell(op, 4, 3, {"C05": Q, "C02": Q if op in C02_QUICK_OPS else T, "C17": Q if op == "Decstbm" else T, "C16": T, "C01": T})
    nocell(op, 1, 1, {"C05": Q if op in ("Cup", "Decstbm") else T, "C01": Q if op in ("Cup", "Decstbm", "Cha") else T}, optional=SMALL_OPT)
    nocell(op, 5, 5, {"C05": T, "C02": T}, sb=0, alt=0)
for op in TAB_MOVE_OPS:
    nocell(op, 6, 2, {"C05": Q, "C18": Q, "C02": T, "C01": T}, tabs_k="2", optional=SMALL_OPT)
    nocell(op, 9, 2, {"C05": T, "C18": T}, tabs_k="SYM", suffix="_default", optional=SMALL_OPT)
    nocell(op, 6, 2, {"C05": T, "C18": T}, tabs_k="4", suffix="_k4", optional=SMALL_OPT)
for op in TAB_EDIT_OPS:
    nocell(op, 6, 2, {"C18": Q, "C02": T, "C01": T}, tabs_k="2", optional=SMALL_OPT)
    nocell(op, 6, 2, {"C18": T}, tabs_k="0", suffix="_k0", optional=SMALL_OPT)
for op in MODE_OPS:
    props = {"C02": T, "C17": T, "C01": T}
    if op in ("So", "Si", "Gzd4", "G1d4", "Sm", "Rm", "DecsetMisc", "DecrstMisc"):
        props["C04"] = Q if op in ("So", "Gzd4", "Sm", "DecrstMisc") else T
    if op in ("Ed3", "XtwinopsOff"):
        props["C20"] = Q
    nocell(op, 3, 3, props)

# ----------------------------------------------------------------------------- the rotate stub against its contract
for n in (1, 2, 3, 5, 8):
    inst("rotate_stub__len%d" % n, "kv", "t_rotate_stub(%d)" % n, 10,
         {"C06": Q if n == 3 else T, "C07": Q if n == 3 else T, "C04": T},
         stubs=[ROTATE_STUB], desc="the element-wise replacement of core::slice::rotate::ptr_rotate meets the rotate_left/right contract",
         bounds="slice length %d, any count" % n)

# ----------------------------------------------------------------------------- terminal: scrolling family (C06)
SCROLL_OPT = ["missing / zero count", "count larger than the range", "count 65535"]


def scroll(op, cols, rows, row, top, bottom, props, sb=1, alt=2, limit="Some(1)", parked=(0, 0), mem=10, suffix="", fill="Fill::SymOnePen", nfix=None):
    kw = dict(sb=sb, alt=alt, limit=limit, crow=row, top=top, bottom=bottom, ccol="SYM", parked_rows=parked[0], parked_sb=parked[1], fill=fill)
    fixed_count = op in ("Lf", "Nel", "Ri") or nfix is not None
    if not fixed_count and rows >= 4:
        mem = max(mem, 16)   # sc_su__3x4_r0_m12 peaked just above 10 GB in one of six runs (solver phase)
    if nfix is not None:
        suffix += "_n%d" % nfix
    inst("sc_%s__%dx%d_r%d_m%d%d%s" % (op.lower(), cols, rows, row, top, bottom, suffix), "terminal",
         "t_scroll(%s, ScrollOp::%s, %s)" % (tcfg(cols, rows, **kw), op, "u32::MAX" if nfix is None else str(nfix)), max(cols, rows + sb + rows, 13) + 3, props, mem=mem,
         stubs=[ROTATE_STUB], timeout=1500,
         desc="execute(%s%s): rows of the range shift by min(n,height), vacated rows blank in the current pen, other lines unchanged, "
              "scrollback grows only for an upward scroll starting at row 0, cursor, marks, frame, InvT" % (op, "" if fixed_count else "(n)"),
         bounds=geo_desc(cols, rows, **kw) + ("; n = %d" % nfix if nfix is not None else ("" if fixed_count else "; n any u16")),
         optional_covers=(SCROLL_OPT if fixed_count else []) + (["alternate screen"] if alt == 0 else []) + (["primary screen"] if alt == 1 else []))


# quick: one instance per op on 3-column screens with a region strictly inside the screen where possible
for op, (cols, rows, row, top, bottom) in {
        "Su": (3, 4, 0, 1, 2), "Sd": (3, 4, 3, 1, 2), "Il": (3, 4, 2, 1, 2), "Dl": (3, 4, 1, 1, 2),
        "Lf": (3, 3, 2, 0, 2), "Nel": (3, 3, 1, 0, 1), "Ri": (3, 3, 1, 1, 2)}.items():
    scroll(op, cols, rows, row, top, bottom, {"C06": Q, "C15": Q if op in ("Il", "Su") else T, "C02": Q if op in ("Dl", "Lf") else T,
                                               "C14": Q if op in ("Lf", "Dl", "Nel") else T, "C17": T, "C16": T, "C01": T})   # Nel: fixed-count scroll of a region anchored at the top (seed C14-e)
scroll("Su", 3, 3, 1, 0, 1, {"C06": Q, "C14": Q, "C13": Q, "C15": T, "C01": T})          # partial region anchored at the top: insert path
scroll("Su", 3, 3, 1, 0, 1, {"C14": Q, "C13": Q, "C06": T}, sb=0, alt=0, limit="Some(0)", suffix="_l0")   # same with scrollback limit 0
scroll("Lf", 3, 3, 1, 0, 1, {"C14": T, "C13": T, "C06": T}, sb=0, alt=0, limit="Some(0)", suffix="_l0")
# whole-view upward scrolls with scrollback limit 0: the lines must still pass through lines() to be handed out by gc (seed C14-f)
for nf in (2, 65535):
    scroll("Su", 2, 2, 1, 0, 1, {"C14": Q, "C06": T, "C13": T}, sb=0, alt=0, limit="Some(0)", suffix="_l0", nfix=nf)
scroll("Dl", 2, 2, 0, 0, 1, {"C14": Q, "C06": T}, sb=0, alt=0, limit="Some(0)", suffix="_l0", nfix=3)
scroll("Dl", 3, 3, 0, 0, 2, {"C06": Q, "C14": Q, "C01": T}, nfix=2)                       # DL at the top row feeds the scrollback
# thorough: every (cursor row, margin pair) of a 3-row screen for every op
for op in ("Su", "Sd", "Il", "Dl", "Lf", "Nel", "Ri"):
    for (top, bottom) in ((0, 1), (0, 2), (1, 2)):
        for row in (0, 1, 2):
            nm = "sc_%s__3x3_r%d_m%d%d" % (op.lower(), row, top, bottom)
            if nm in _names:
                continue
            if (op == "Su" and (top, bottom) == (0, 2)) or (op == "Dl" and row == 0 and bottom == 2):
                # whole-view upward scroll: Buffer::extend(n) -> Vec::extend with a symbolic count does not
                # finish in CBMC, so the count is a constant of the instance here
                for nf in (0, 1, 2, 3, 4, 65535):
                    if "sc_%s__3x3_r%d_m%d%d_n%d" % (op.lower(), row, top, bottom, nf) in _names:
                        continue
                    scroll(op, 3, 3, row, top, bottom, {"C06": Q if (op, row, nf) == ("Su", 1, 2) else T, "C14": T, "C13": T, "C15": T}, nfix=nf)
                continue
            scroll(op, 3, 3, row, top, bottom, {"C06": T, "C15": T, "C02": T, "C14": T, "C05": T if op in ("Lf", "Nel", "Ri") else None} if False else
                   {k: v for k, v in {"C06": T, "C15": T, "C02": T, "C14": T, "C05": (T if op in ("Lf", "Nel", "Ri") else None)}.items() if v})
for op in ("Su", "Il", "Dl", "Lf"):
    if op in ("Su", "Dl"):
        # whole-view upward scrolls: the count is a constant of the instance (see the 3x3 set)
        for nf in (0, 1, 2, 65535):
            scroll(op, 1, 1, 0, 0, 0, {"C06": T, "C01": Q if (op, nf) == ("Su", 65535) else T}, sb=0, nfix=nf)
            scroll(op, 2, 2, 0, 0, 1, {"C06": T, "C01": T, "C14": T}, sb=2, limit="None", alt=0, suffix="_sb2", nfix=nf)
        continue
    scroll(op, 1, 1, 0, 0, 0, {"C06": T, "C01": Q if op in ("Il", "Lf") else T}, sb=0)
    scroll(op, 2, 2, 0, 0, 1, {"C06": T, "C01": T}, sb=2, limit="None", alt=0, suffix="_sb2")

# ----------------------------------------------------------------------------- terminal: erase / edit / print / rep
def erase(op, cols, rows, props, sb=1, alt=2, mem=12, suffix=""):
    kw = dict(sb=sb, alt=alt, limit="Some(1)")
    opt = ["a cell of another row is erased"] if op in ("El0", "El1", "El2", "Ech") else []
    if rows == 1:
        opt += ["a cell of another row is erased"]
    if cols == 1 or op in ("Ed2", "El2"):
        opt += ["a cell of the cursor row survives"]
    if sb == 0:
        opt += ["a scrollback line is watched"]
    inst("er_%s__%dx%d%s" % (op.lower(), cols, rows, suffix), "terminal", "t_erase(%s, EraseOp::%s)" % (tcfg(cols, rows, **kw), op),
         max(cols, rows + sb, 13) + 3, props, mem=mem, timeout=1500,
         desc="execute(%s): exactly the extent is blanked in the current pen, soft-wrap mark cleared when the tail is erased, everything else unchanged" % op,
         bounds=geo_desc(cols, rows, **kw) + "; n any u16", optional_covers=opt)


for op in ("Ed0", "Ed1", "Ed2", "El0", "El1", "El2", "Ech"):
    # C15: every scope has its own flagging code in Terminal::ed / el, so all of them are in the quick tier (seed C15-e: ED 2)
    erase(op, 3, 3, {"C07": Q, "C15": Q, "C02": Q if op == "Ed0" else T, "C08": Q if op == "El0" else T,
                     "C14": Q if op == "Ed2" else T, "C16": T, "C17": T, "C01": T})
    erase(op, 1, 1, {"C07": T, "C01": Q if op in ("Ed1", "Ech", "El1") else T}, sb=0, suffix="")
    erase(op, 4, 2, {"C07": T, "C15": T}, sb=0, alt=0)


def edit(op, cols, rows, props, sb=1, alt=2, mem=8, crow="SYM", ccol="SYM", suffix=""):
    kw = dict(sb=sb, alt=alt, limit="Some(1)", crow=crow, ccol=ccol)
    inst("ed_%s__%dx%d%s" % (op.lower(), cols, rows, suffix), "terminal", "t_edit(%s, EditOp::%s)" % (tcfg(cols, rows, **kw), op),
         max(cols, rows + sb, 13) + 3, props, mem=mem, timeout=1500, stubs=[ROTATE_STUB] if op != "Decaln" else [],
         desc="execute(%s): exact extent / shift, blanks in the current pen (DECALN: E with the default pen), cursor, marks, frame" % op,
         bounds=geo_desc(cols, rows, **kw) + "; n any u16",
         optional_covers=["missing / zero count", "count 65535", "a shifted cell is watched", "a vacated cell is watched"] if op == "Decaln" else (["a shifted cell is watched"] if cols == 1 else []))


for op in ("Ich", "Dch"):
    edit(op, 3, 2, {"C07": Q, "C15": Q, "C02": T, "C08": Q if op == "Ich" else T, "C17": T, "C01": T})
    edit(op, 4, 3, {"C07": T, "C15": T, "C02": T})
    edit(op, 1, 1, {"C07": T, "C01": Q}, sb=0)
edit("Decaln", 2, 2, {"C07": Q, "C15": Q, "C01": T})
edit("Decaln", 3, 3, {"C07": T, "C15": T})
inst("charset", "terminal", "t_charset()", 4, {"C04": Q, "C01": T},
     desc="Charset::translate for every char under both sets against the VT100 special-graphics table", bounds="all chars")


def prnt(cols, rows, row, top, bottom, props, sb=1, alt=2, limit="Some(1)", mem=8, suffix="", opt=(), rep=False):
    kw = dict(sb=sb, alt=alt, limit=limit, crow=row, top=top, bottom=bottom)
    if rep:
        opt = list(opt) + ["drawing set", "astral character"]
    inst("%s__%dx%d_r%d_m%d%d%s" % ("rep1" if rep else "pr", cols, rows, row, top, bottom, suffix), "terminal",
         "t_print_or_rep(%s, %s)" % (tcfg(cols, rows, **kw), ("1" if "n1" in suffix else "0") if rep else "u32::MAX"),
         max(cols, rows + sb + 1, 13) + 3, props, mem=mem, timeout=1500, stubs=[ROTATE_STUB],
         desc="execute(Print(ch)): translated char + current pen in exactly one cell, cursor advance / wrap-pending / deferred wrap (mark, next row or region scroll), "
              "insert mode shift, auto-wrap off overwrite, nothing else changes",
         bounds=geo_desc(cols, rows, **kw) + "; every scalar value >= U+0020 except C1", optional_covers=list(opt))


PR_OPT_NOSCROLL = ["wrap on the bottom margin scrolls the region"]
PR_OPT_NOSTEP = ["wrap to the next row"]
for (top, bottom) in ((0, 2), (0, 1), (1, 2)):
    for row in (0, 1, 2):
        opt = []
        if row != bottom:
            opt += PR_OPT_NOSCROLL
        if row == bottom or row == 2:
            opt += PR_OPT_NOSTEP
        quick = (row, top, bottom) in ((2, 0, 2), (1, 0, 2), (1, 0, 1), (2, 1, 2), (2, 0, 1))
        prnt(3, 3, row, top, bottom, {"C04": Q if quick else T, "C15": Q if (row, top, bottom) == (1, 0, 2) else T,
                                       "C08": Q if (row, top, bottom) == (1, 0, 2) else T, "C02": Q if (row, top, bottom) in ((2, 0, 2), (2, 0, 1)) else T,
                                       "C06": Q if (row, top, bottom) == (2, 1, 2) else T, "C14": T, "C17": T, "C16": T, "C01": T}, opt=opt)
prnt(1, 1, 0, 0, 0, {"C04": Q, "C01": Q}, sb=0, opt=PR_OPT_NOSTEP + ["insert mode in the middle of the row"])
prnt(1, 3, 1, 0, 2, {"C04": T, "C01": T}, sb=0, opt=PR_OPT_NOSCROLL + ["insert mode in the middle of the row"], suffix="")
prnt(3, 1, 0, 0, 0, {"C04": T, "C01": T}, sb=0, opt=PR_OPT_NOSTEP)
prnt(2, 2, 1, 0, 1, {"C04": T, "C01": T}, sb=2, limit="None", alt=0, opt=PR_OPT_NOSTEP + ["insert mode in the middle of the row"], suffix="_sb2")


prnt(3, 3, 2, 0, 2, {"C04": Q, "C01": T}, rep=True, opt=PR_OPT_NOSTEP)
prnt(3, 3, 1, 1, 2, {"C04": T}, rep=True, opt=PR_OPT_NOSCROLL, suffix="_n1")
prnt(3, 3, 1, 0, 1, {"C04": T}, rep=True, opt=PR_OPT_NOSTEP)
# (the twin-terminal REP harness t_rep exceeds 24 GB in CBMC for every count tried; REP 0/1 are decided by rep1__*, larger counts are outside)


# ----------------------------------------------------------------------------- screen switching, cursor context, RIS
def switch(op, cols, rows, alt, props, parked_rows=None, parked_sb=1, sb=1, crow="SYM", asrow="SYM", mem=8, suffix=""):
    pr = parked_rows or rows
    kw = dict(sb=sb if alt == 0 else 0, alt=alt, limit="Some(1)", parked_rows=pr, parked_sb=parked_sb if alt == 1 else 0, crow=crow, asrow=asrow)
    stale = pr != rows
    inst("sw_%s__%dx%d_from%s%s%s" % (op.lower(), cols, rows, "alt" if alt else "pri", "_parked%d" % pr if stale else "", suffix), "terminal",
         "t_switch(%s, SwitchOp::%s)" % (tcfg(cols, rows, **kw), op), 16, props, mem=mem, timeout=1500,
         desc="execute(DECSET/DECRST %s) with the %s screen active%s: blank alternate screen in the current pen, primary parked / restored line for line, "
              "saved contexts per screen, 1049 cursor save / restore" % (op, "alternate" if alt else "primary", ", parked primary of stale height %d" % pr if stale else ""),
         bounds=geo_desc(cols, rows, **kw) + "; parked screen %d rows + %d scrollback line(s)" % (pr, kw["parked_sb"]))


for op in ("Enter1047", "Enter1049"):
    switch(op, 3, 3, 0, {"C16": Q, "C17": Q if op == "Enter1049" else T, "C15": Q if op == "Enter1047" else T, "C13": Q if op == "Enter1047" else T, "C02": T, "C08": T, "C01": T})
    switch(op, 3, 3, 1, {"C16": Q if op == "Enter1047" else T, "C17": Q if op == "Enter1049" else T, "C02": T})
    switch(op, 1, 1, 0, {"C16": T, "C01": T}, sb=0)
# entering while the alternate screen's own saved cursor is stale (the screen was shrunk while the primary was showing)
switch("Enter1047", 3, 2, 0, {"C02": Q, "C17": Q, "C16": T, "C01": Q}, parked_rows=3, asrow=2, suffix="_stale")
switch("Enter1049", 3, 1, 0, {"C02": T, "C17": T, "C16": T}, parked_rows=3, asrow=1, suffix="_stale")
for op in ("Leave1047", "Leave1049"):
    switch(op, 3, 3, 1, {"C16": Q, "C17": Q if op == "Leave1049" else T, "C15": Q if op == "Leave1049" else T, "C02": T, "C14": T, "C01": T})
    switch(op, 3, 3, 0, {"C16": T, "C17": Q if op == "Leave1049" else T, "C02": T})   # ?1049l while the primary is showing still restores (seed C17-f)
    # R-switch: the primary was parked with another height (resize during the excursion); heights and cursor rows concrete
    for (rows, pr, crow, asrow) in ((2, 3, 1, 2), (3, 2, 2, 0), (2, 3, 0, 0), (3, 2, 0, 1), (1, 3, 0, 1), (3, 1, 1, 0)):
        quick = (rows, pr, crow, asrow) in ((2, 3, 1, 2), (3, 2, 2, 0))
        switch(op, 3, rows, 1, {"C16": Q if quick else T, "C02": Q if quick and op == "Leave1049" else T, "C17": T, "C10": T, "C01": T}, parked_rows=pr, crow=crow, asrow=asrow,
               suffix="_r%d_s%d" % (crow, asrow))


def ctx(op, cols, rows, props, alt=2, sb=1, mem=8):
    kw = dict(sb=sb, alt=alt, limit="Some(1)")
    inst("cx_%s__%dx%d" % (op.lower(), cols, rows), "terminal", "t_ctx(%s, CtxOp::%s)" % (tcfg(cols, rows, **kw), op), max(cols, rows + sb, 13) + 3, props, mem=mem,
         desc="execute(%s): saved context == (col clamped, row, pen, origin, auto-wrap) / restored exactly / soft reset; no cell, nothing else changes" % op,
         bounds=geo_desc(cols, rows, **kw))


for op in ("Decsc", "Scosc", "Save1048", "Decrc", "Scorc", "Restore1048", "Decstr"):
    ctx(op, 3, 3, {"C17": Q, "C16": Q if op == "Decstr" else T, "C02": T, "C01": T})
    ctx(op, 1, 1, {"C17": T, "C01": T}, sb=0)


def ris(cols, rows, alt, props, parked_rows=None, tabs_k="SYM", sb=1, limit="Some(1)", mem=8, suffix="", limit_any="false"):
    pr = parked_rows or rows
    kw = dict(sb=sb if alt == 0 else 0, alt=alt, limit=limit, parked_rows=pr, parked_sb=1 if alt == 1 else 0, tabs_k=tabs_k, limit_any=limit_any)
    opt = []
    if alt == 0:
        opt.append("RIS from the alternate screen")
    if pr == rows:
        opt.append("RIS with a stale parked screen")
    inst("ris__%dx%d_from%s%s" % (cols, rows, "alt" if alt else "pri", suffix), "terminal", "t_ris(%s)" % tcfg(cols, rows, **kw),
         max(cols, rows + 2, pr + 2, 13) + 3, props, mem=mem, timeout=1500, optional_covers=opt,
         desc="execute(Ris) from any InvT state equals Terminal::new((cols, rows), limit) field by field (cells, marks, cursor, pen, modes incl. cursor keys, margins, tabs, charsets, both saved contexts, limits, changed rows)",
         bounds=geo_desc(cols, rows, **kw) + "; parked screen %d rows" % pr)


ris(3, 3, 0, {"C19": Q, "C17": T, "C15": T, "C02": T, "C01": T}, tabs_k="1")
ris(3, 3, 1, {"C19": Q, "C17": Q, "C16": T, "C01": T}, parked_rows=2, suffix="_parked2")  # C17 after seed C17-e: RIS = power-on saved contexts
ris(9, 2, 1, {"C19": T}, tabs_k="2", suffix="_tabs")
ris(1, 1, 0, {"C19": T, "C01": Q}, sb=0)
# (RIS with an unlimited scrollback is outside: Buffer::new reserves 1000 lines, which CBMC does not survive)


# ----------------------------------------------------------------------------- resize (height only / glue), gc
def resize_rows(cols, rows, new_rows, crow, props, sb=1, alt=0, limit="Some(1)", mem=8, parked=(0, 0), suffix=""):
    kw = dict(sb=sb, alt=alt, limit=limit, crow=crow, parked_rows=parked[0], parked_sb=parked[1])
    inst("rs__%dx%d_to%d_r%d_sb%d%s%s" % (cols, rows, new_rows, crow, sb, "_alt" if alt == 1 else "", suffix), "terminal",
         "t_resize_rows(%s, %d)" % (tcfg(cols, rows, **kw), new_rows), max(cols, rows + sb + 3, new_rows + sb + 3, 14) + 2, props, mem=mem, timeout=1500,
         desc="Terminal::resize(cols, %d) from %d rows (width unchanged), cursor on row %d: no line altered, only rows below the cursor dropped / blank rows added, "
              "cursor stays on its line, region reset, saved position clamped, parked screen untouched, InvT" % (new_rows, rows, crow),
         bounds=geo_desc(cols, rows, **kw), optional_covers=["alternate screen"] if alt == 0 else [])


for (rows, new, crow, sb) in ((3, 2, 2, 1), (3, 2, 0, 1), (2, 3, 1, 1), (2, 3, 0, 0), (1, 3, 0, 2), (3, 1, 1, 0), (3, 1, 2, 1), (3, 1, 0, 1),
                              (2, 2, 1, 1), (3, 2, 1, 0), (2, 4, 1, 1), (4, 2, 1, 0), (4, 2, 3, 1), (1, 2, 0, 0), (2, 1, 0, 1), (2, 1, 1, 1)):
    quick = (rows, new, crow, sb) in ((3, 2, 2, 1), (3, 2, 0, 1), (2, 3, 1, 1), (1, 3, 0, 2), (3, 1, 1, 0), (2, 4, 1, 1))
    resize_rows(2, rows, new, crow, {"C10": Q if quick else T, "C02": Q if (rows, new, crow) in ((3, 2, 0), (2, 3, 1)) else T, "C13": Q if (rows, new, crow, sb) == (3, 2, 2, 1) else T, "C17": Q if (rows, new, crow) == (3, 1, 1) else T,
                                      "C15": Q if (rows, new, crow) == (2, 3, 1) else T, "C05": T, "C06": T, "C01": Q if (rows, new) in ((1, 3), (3, 1)) and quick else T}, sb=sb)
resize_rows(2, 3, 2, 1, {"C16": Q, "C02": T, "C10": T}, sb=0, alt=1, parked=(3, 1), suffix="_parked3")
resize_rows(2, 2, 3, 1, {"C16": Q, "C02": T}, sb=0, alt=1, parked=(2, 1), suffix="_parked2")


def resize_glue(cols, rows, new_cols, new_rows, props, tabs_k="SYM", mem=6):
    kw = dict(sb=0, alt=2, limit="Some(1)", tabs_k=tabs_k, fill="Fill::Blank")
    inst("rg__%dx%d_to_%dx%d%s" % (cols, rows, new_cols, new_rows, "" if tabs_k == "SYM" else "_k%s" % tabs_k), "terminal",
         "t_resize_glue(%s, %d, %d)" % (tcfg(cols, rows, **kw), new_cols, new_rows), max(cols, new_cols, 13) + 4, props, mem=mem,
         stubs=[("crate::buffer::Buffer::resize", "crate::buffer::Buffer::kv_resize_contract")],
         desc="Terminal::resize %dx%d -> %dx%d with Buffer::resize replaced by its contract: tab stops contracted / expanded with the right arguments, wrap-pending dropped, "
              "region kept on a width-only change, saved position clamped, changed rows" % (cols, rows, new_cols, new_rows),
         bounds="%dx%d -> %dx%d, either screen, %s" % (cols, rows, new_cols, new_rows, "default tab stops" if tabs_k == "SYM" else "any %s tab stops" % tabs_k))


for (cols, rows, nc, nr, k, quick) in ((8, 2, 17, 2, "SYM", True), (16, 2, 9, 2, "SYM", True), (9, 3, 20, 2, "2", True), (20, 2, 9, 3, "3", False),
                                       (16, 2, 24, 2, "1", False), (7, 2, 8, 2, "SYM", False), (8, 2, 9, 2, "SYM", False), (24, 2, 8, 2, "SYM", False), (1, 1, 2, 1, "SYM", False)):
    resize_glue(cols, rows, nc, nr, {"C18": Q if quick else T, "C17": Q if quick and k == "2" else T, "C05": Q if (cols, nc) == (8, 17) else T,
                                      "C06": Q if k == "2" else T, "C02": T, "C15": T, "C04": T}, tabs_k=k)


def gc(cols, rows, sb, limit, alt, drain, props, mem=8, tn=True, parked=(0, 0)):
    kw = dict(sb=sb, alt=alt, limit=limit, parked_rows=parked[0], parked_sb=parked[1])
    inst("gc__%dx%d_sb%d_l%s_%s_%s%s%s" % (cols, rows, sb, limit.replace("Some(", "").replace(")", "").lower(), "alt" if alt else "pri", "drain" if drain else "drop", "" if tn else "_noflag",
                                          "_parked%d_%d" % parked if parked[0] else ""), "terminal",
         "t_gc(%s, %s, %s)" % (tcfg(cols, rows, **kw), "true" if drain else "false", "true" if tn else "false"), max(cols, rows + sb, 14) + 3, props, mem=mem, timeout=1500,
         desc="changes() then gc() with %d scrollback line(s), limit %s, %s screen, iterator %s: exactly the oldest lines beyond the soft limit leave, in order and unchanged; "
              "retention bound; view, cursor, modes unchanged" % (sb, limit, "alternate" if alt else "primary", "drained" if drain else "dropped unconsumed"),
         bounds=geo_desc(cols, rows, **kw),
         optional_covers=["something is trimmed", "nothing is trimmed"])


GC_SET = []
for limit, sbs in (("Some(0)", (0, 1, 2)), ("Some(1)", (0, 1, 2, 3)), ("Some(3)", (3, 4, 5)), ("Some(10)", (11, 12, 13)), ("None", (0, 2))):
    for sb in sbs:
        for drain in (True, False):
            GC_SET.append((limit, sb, 0, drain))
for sb in (0, 1, 2):
    for drain in (True, False):
        GC_SET.append(("Some(3)", sb, 1, drain))
for (limit, sb, alt, drain) in GC_SET:
    quick13 = (limit, sb, alt) in (("Some(0)", 2, 0), ("Some(1)", 2, 0), ("Some(10)", 12, 0), ("Some(3)", 2, 1)) and drain
    quick14 = (limit, sb, alt, drain) in (("Some(1)", 3, 0, True), ("Some(1)", 3, 0, False), ("Some(3)", 5, 0, True), ("Some(3)", 1, 1, True))
    quick12 = (limit, sb, alt, drain) in (("None", 2, 0, False), ("Some(1)", 2, 0, True), ("Some(3)", 1, 1, False))
    gc(2, 2, sb, limit, alt, drain, {"C13": Q if quick13 else T, "C14": Q if quick14 else T, "C12": Q if quick12 else T, "C15": T, "C02": T, "C01": T})

for (cols, rows) in ((2, 3), (1, 1), (2, 4)):
    inst("changes__%dx%d" % (cols, rows), "terminal", "t_changes(%s)" % tcfg(cols, rows, sb=1, alt=2, limit="Some(1)"), max(cols, rows + 1) + 3,
         {"C15": Q if rows == 3 else T, "C02": Q if rows == 3 else T, "C12": Q if rows == 3 else T, "C01": T}, mem=6,
         desc="Terminal::changes() with any flags: exactly the flagged rows, strictly increasing, < rows; flags cleared; nothing else changes",
         bounds="%dx%d, any flag pattern" % (cols, rows))

gc(2, 2, 1, "Some(1)", 0, True, {"C13": T, "C14": T, "C12": Q}, tn=False)
gc(2, 2, 0, "Some(0)", 1, False, {"C13": T, "C12": T}, tn=False)


# ----------------------------------------------------------------------------- pen, sgr, base, vt
inst("pen_bits", "pen", "t_pen_bits()", 4, {"C08": Q, "C01": T},
     desc="Pen: each set_x / unset_x changes exactly attribute x, is_x reads it, bold / faint exclusive, colours are the fields, for any pen",
     bounds="all pens (3 x 2^5 attribute combinations, all colours)")
for k in (0, 1, 2, 3):   # k = 0: a list of unknown codes only decodes to no operation and must leave the pen alone (seed C08-f)
    inst("sgr_fold__k%d" % k, "terminal", "t_sgr(%s, %d)" % (tcfg(2, 2, sb=0, alt=2, limit="Some(1)"), k), 6,
         {"C08": Q if k in (0, 2) else T, "C17": T, "C01": T}, mem=6, optional_covers=["bold italic coloured pen"] if k == 0 else [],
         desc="execute(Sgr(ops)) with %d arbitrary SgrOps from any pen == left fold of the statement (reset, bold/faint exclusive, 21/22, five independent bits, colours); nothing else changes" % k,
         bounds="%d operations, any colours" % k)
for (cols, rows, limit) in ((1, 1, 0), (3, 1, 1), (1, 3, 10), (2, 2, 0), (4, 3, 1), (9, 2, 3)):
    inst("base__%dx%d_l%d" % (cols, rows, limit), "terminal", "t_base(%d, %d, %d)" % (cols, rows, limit), max(cols, rows, 12) + 2,
         {"C02": Q if (cols, rows) in ((2, 2), (1, 1)) else T, "C01": Q if (cols, rows) == (1, 1) else T, "C13": T, "C19": T}, mem=6,
         desc="Terminal::new((%d,%d), Some(%d)) satisfies InvT, is blank, default modes, limits" % (cols, rows, limit), bounds="concrete size")
inst("vt_none__2x2", "vt", "t_vt_none(%s)" % tcfg(2, 2, sb=1, alt=2, limit="Some(1)"), 34, {"C20": Q, "C01": T}, mem=8,
     stubs=[("crate::parser::Param::clear", "crate::parser::Param::kv_clear_spec"), ("crate::parser::Parser::csi_dispatch", "crate::parser::Parser::kv_no_csi_dispatch"),
            ("crate::terminal::Terminal::execute", "crate::terminal::Terminal::kv_rec_execute")],
     desc="Vt::feed(payload char) with the parser inside OSC / SOS-PM-APC / DCS: terminal unchanged (cells, cursor, modes, tabs, changed lines)",
     bounds="2x2, all payload chars, all seven string states")
for (cols, rows) in ((2, 2), (1, 1), (3, 4)):
    inst("vt_query__%dx%d" % (cols, rows), "vt", "t_vt_query(%s)" % tcfg(cols, rows, sb=1, alt=2, limit="Some(1)"), max(cols, rows + 1) + 3,
         {"C02": Q if rows == 2 else T, "C01": Q if rows == 1 else T}, mem=6,
         desc="Vt::size/view/lines/line(n)/cursor from any InvT state: view is the rows-line tail of lines(), line widths, cursor range", bounds="%dx%d" % (cols, rows))


# ----------------------------------------------------------------------------- reflow kernels (C10), R-pos
for n in (1, 2, 3, 4):
    inst("ln_trim__n%d" % n, "line", "t_line_trim(%d)" % n, 8, {"C10": Q if n == 3 else T, "C01": T},
         desc="Line::trailers / trim / is_blank for any line of %d cells" % n, bounds="%d cells, any contents" % n)
for (n, ln) in ((2, 1), (3, 1), (3, 2), (4, 1), (4, 2), (4, 3), (5, 2)):
    inst("ln_contract__n%d_to%d" % (n, ln), "line", "t_line_contract(%d, %d)" % (n, ln), 9, {"C10": Q if (n, ln) in ((3, 2), (4, 2), (3, 1)) else T, "C01": T},
         desc="Line::contract(%d) on any line of %d cells (any contents, any mark): head kept, overflow moved to the continuation in order, only trailing blanks of an unwrapped line dropped, marks" % (ln, n),
         bounds="%d -> %d cells" % (n, ln), mem=8)
EXT = []
for la in (1, 2):
    for lb in (1, 2, 3):
        for ln in range(la, la + lb + 2):
            if ln > 5:
                continue
            for aw in (True, False):
                for bw in (True, False):
                    for bt in range(0, lb + 1):
                        if bw and bt > 0 and False:
                            continue
                        EXT.append((la, lb, ln, aw, bw, bt))
for (la, lb, ln, aw, bw, bt) in EXT:
    quick = aw and la == 2 and lb == 2 and ln in (3, 4) and bt in (0, 1) and (bw or ln == 3)
    inst("ln_extend__a%d_b%d_to%d_%s%s_t%d" % (la, lb, ln, "w" if aw else "u", "w" if bw else "u", bt), "line",
         "t_line_extend(%d, %d, %d, %s, %s, %d)" % (la, lb, ln, str(aw).lower(), str(bw).lower(), bt), 9, {"C10": Q if quick else T},
         stubs=[("crate::line::Line::trailers", "crate::line::Line::kv_trailers_stub")],
         desc="Line::extend(b, %d): a has %d cells (%s), b has %d cells (%s, %d trailing default blanks), contents symbolic: a' ++ rest' == a ++ b' in order, padding, marks"
              % (ln, la, "wrapped" if aw else "unwrapped", lb, "wrapped" if bw else "unwrapped", bt),
         bounds="shape-concrete, contents symbolic", mem=6)
for (cols, rows, sb) in ((2, 2, 2), (3, 3, 2), (1, 2, 3), (2, 1, 4)):
    inst("rpos__%dx%d_sb%d" % (cols, rows, sb), "buffer", "t_rpos(%d, %d, %d)" % (cols, rows, sb), rows + sb + 4, {"C10": Q if cols == 2 and rows == 2 else T, "C01": T},
         desc="Buffer::relative_position(logical_position(p)) == p for any soft-wrap marks over %d lines" % (rows + sb), bounds="%dx%d + %d scrollback lines" % (cols, rows, sb))

# alternate screen showing while the parked primary still has lines pending for trimming (scrolled and switched in one call)
gc(2, 2, 0, "Some(1)", 1, True, {"C14": Q, "C16": Q, "C13": T, "C12": T}, parked=(2, 2), mem=20)
gc(2, 2, 1, "Some(1)", 1, False, {"C14": T, "C16": T, "C13": T}, parked=(2, 3), mem=20)


# ----------------------------------------------------------------------------- T-plain (C09)
def plain(cols, rows, crow, sb, step, props, mem=8):
    kw = dict(sb=sb, alt=0, limit="None", crow=crow, top=0, bottom=rows - 1)
    opt = []
    if crow != rows - 1 or step == "Print":
        opt.append("the text scrolls")
    if step != "Print":
        opt.append("the line exactly fills the width")
    if step == "CrLf":
        opt.append("non-Latin-1 character")
    inst("pl_%s__%dx%d_r%d_sb%d" % (step.lower(), cols, rows, crow, sb), "terminal", "t_plain(%s, PlainStep::%s)" % (tcfg(cols, rows, **kw), step),
         max(cols, rows + sb + 1, 13) + 3, props, mem=mem, timeout=1500, stubs=[ROTATE_STUB], optional_covers=opt,
         desc="plain-text step %s from any Plain state (lines above the cursor arbitrary): exactly one cell written / row left marked soft-wrapped / next line started, "
              "no other cell or mark changes in absolute line coordinates, a line is appended exactly on the last row, the state is Plain again" % step,
         bounds="%dx%d, cursor row %d, %d scrollback line(s), unlimited scrollback, primary screen" % (cols, rows, crow, sb))


for step in ("Print", "PrintWrap", "CrLf"):
    for (cols, rows, crow, sb) in ((2, 2, 1, 1), (3, 2, 0, 0), (1, 2, 1, 2), (3, 3, 2, 1), (1, 1, 0, 1), (2, 3, 1, 0), (3, 1, 0, 2)):
        # one-row screens: the row left by a deferred wrap is row 0 and scrolls away at once (seed C09-c)
        quick = (cols, rows, crow, sb) in ((2, 2, 1, 1), (3, 2, 0, 0)) or ((cols, rows, crow, sb) in ((1, 2, 1, 2), (3, 1, 0, 2), (1, 1, 0, 1)) and step == "PrintWrap")
        plain(cols, rows, crow, sb, step, {"C09": Q if quick else T, "C01": T})

inst("vt_glue__2x2", "vt", "t_vt_glue(2, 2)", 36, {"C12": Q, "C20": T, "C01": T}, mem=10, timeout=1500,
     stubs=[("crate::parser::Param::clear", "crate::parser::Param::kv_clear_spec"), ("crate::parser::Parser::csi_dispatch", "crate::parser::Parser::kv_no_csi_dispatch"),
            ("crate::terminal::Terminal::execute", "crate::terminal::Terminal::kv_rec_execute")],
     desc="Vt::feed_str of a one-character string (any ASCII char) from any parser state: parser ends where Parser::feed leaves a twin parser, execute reached iff a function was produced",
     bounds="1 character < U+0080, all 14 parser states, cur_param 0, fresh 2x2 terminal")


# ----------------------------------------------------------------------------- cursor arithmetic for every screen size (scalar slice)
BIG_OPS = ["Bs", "Cr", "Cuu", "Cud", "Cuf", "Cub", "Cnl", "Cpl", "Cha", "Cup", "Vpa", "Vpr", "Decstbm", "OriginSet", "OriginReset"]
for op in BIG_OPS:
    inst("ncbig_%s" % op.lower(), "terminal", "t_nocell(%s, NoCellOp::%s)" % (tcfg(1, 1, sb=0, alt=2, limit="Some(1)", big="true"), op), 16,
         # all of them in the quick tiers of C01 / C05 (15 s each): degenerate widths such as cols == 1 are only here (seed C01-e)
         {k: v for k, v in {"C05": Q, "C01": Q, "C06": (T if op == "Decstbm" else None)}.items() if v},
         mem=6,
         desc="execute(%s) on the scalar slice of the state: size fields, cursor, margins, saved position symbolic for EVERY screen size up to 2^31 x 2^31 "
              "(buffers 1x1; the operation reads no buffer): same closed forms, no overflow in the usize/isize arithmetic" % op,
         bounds="cols, rows any in 1..=2^31; all u16 parameters", optional_covers=[])

inst("buffer_new_any_limit", "buffer", "t_buffer_new_any_limit()", 4, {"C01": Q, "C13": Q}, mem=8,
     desc="Buffer::new(1, 1, Some(limit)) for every usize limit: no capacity / arithmetic overflow, hard limit formula", bounds="1x1 screen, limit any usize")

for (cols, rows) in ((1, 1), (2, 2), (3, 3)):
    inst("base_any_limit__%dx%d" % (cols, rows), "terminal", "t_base_any(%d, %d)" % (cols, rows), 16, {"C01": Q if cols == 2 else T, "C02": T, "C13": T}, mem=8,
         desc="Terminal::new((%d,%d), Some(limit)) for every usize limit: returns normally, InvT, limits" % (cols, rows), bounds="%dx%d, limit any usize" % (cols, rows))

ris(2, 2, 1, {"C19": Q, "C13": T}, parked_rows=3, sb=0, limit="Some(0)", limit_any="true", suffix="_anylimit")
ris(2, 2, 0, {"C19": T}, sb=0, limit="Some(0)", limit_any="true", suffix="_anylimit")

inst("base_unlimited__2x2", "terminal", "t_base_unlimited(2, 2)", 16, {"C02": T, "C01": T}, mem=16,
     desc="Terminal::new((2,2), None) satisfies InvT (Buffer::new reserves 1000 lines)", bounds="2x2, unlimited")
ris(2, 2, 0, {"C19": T}, sb=1, limit="None", suffix="_unlimited", mem=20)
ris(2, 2, 1, {"C19": T}, parked_rows=2, sb=0, limit="None", suffix="_unlimited", mem=20)

inst("vt_calls", "vt", "t_vt_calls()", 16, {"C12": Q, "C13": Q, "C15": Q, "C02": T, "C01": T}, mem=8,
     stubs=[("crate::terminal::Terminal::resize", "crate::terminal::Terminal::kv_log_resize"), ("crate::terminal::Terminal::changes", "crate::terminal::Terminal::kv_log_changes"),
            ("crate::terminal::Terminal::gc", "crate::terminal::Terminal::kv_log_gc"), ("crate::terminal::Terminal::execute", "crate::terminal::Terminal::kv_log_execute")],
     desc="call structure of Vt::resize / Vt::feed_str / Vt::feed with Terminal's methods replaced by call loggers: resize -> changes -> gc; execute* -> changes -> gc; feed -> execute",
     bounds="any new size 1..9 x 1..9, a two-character string")

# ----------------------------------------------------------------------------- thorough-only: larger geometries
for row in (0, 1, 2, 3):
    opt = []
    if row != 2:
        opt += PR_OPT_NOSCROLL
    if row == 2 or row == 3:
        opt += PR_OPT_NOSTEP
    prnt(3, 4, row, 1, 2, {"C04": T, "C15": T, "C02": T, "C06": T}, opt=opt, mem=12)
prnt(4, 3, 2, 0, 2, {"C04": T, "C08": T}, opt=PR_OPT_NOSTEP, mem=12)
prnt(4, 3, 1, 0, 2, {"C04": T}, opt=PR_OPT_NOSCROLL, mem=12)
prnt(2, 4, 3, 0, 3, {"C04": T, "C09": T}, sb=2, limit="None", alt=0, opt=PR_OPT_NOSTEP, suffix="_sb2", mem=12)
for op in ("Su", "Sd", "Il", "Dl", "Lf", "Nel", "Ri"):
    for row in (0, 1, 2, 3):
        nm = "sc_%s__3x4_r%d_m12" % (op.lower(), row)
        if nm in _names:
            continue
        scroll(op, 3, 4, row, 1, 2, {"C06": T, "C15": T, "C14": T, "C05": T} if op in ("Lf", "Nel", "Ri") else {"C06": T, "C15": T, "C14": T}, mem=12)
for op in ("Ed0", "Ed1", "Ed2", "El0", "El1", "El2", "Ech"):
    erase(op, 4, 3, {"C07": T, "C15": T}, sb=1, alt=2, mem=12, suffix="_full")
for op in ("Enter1049", "Leave1049"):
    switch(op, 4, 2, 0 if op.startswith("Enter") else 1, {"C16": T, "C17": T}, suffix="_wide")
for op in ("Decsc", "Decrc", "Decstr"):
    ctx(op, 4, 3, {"C17": T})
for (rows, new, crow, sb) in ((3, 2, 1, 1), (2, 3, 0, 2), (4, 1, 2, 1), (1, 4, 0, 1)):
    resize_rows(3, rows, new, crow, {"C10": T, "C02": T, "C13": T}, sb=sb, suffix="_w3")
for (limit, sb, alt, drain) in (("Some(1)", 3, 0, True), ("Some(3)", 5, 0, False), ("Some(10)", 13, 0, True)):
    kw = dict(sb=sb, alt=alt, limit=limit)
    inst("gc__1x3_sb%d_l%s_pri_%s" % (sb, limit.replace("Some(", "").replace(")", ""), "drain" if drain else "drop"), "terminal",
         "t_gc(%s, %s, true)" % (tcfg(1, 3, **kw), "true" if drain else "false"), max(3 + sb, 14) + 3, {"C13": T, "C14": T, "C12": T}, mem=8, timeout=1500,
         desc="gc() on a 1x3 screen with %d scrollback lines, limit %s" % (sb, limit), bounds=geo_desc(1, 3, **kw), optional_covers=["something is trimmed", "nothing is trimmed"])

# ----------------------------------------------------------------------------- geometries with rows *below* the region that are not the last row (4 rows, region 0..1)
for op in ("LfOffMargin", "NelOffMargin"):
    nocell(op, 3, 4, {"C05": Q if op == "LfOffMargin" else T, "C02": T}, geo=(2, 0, 1), optional=SMALL_OPT)
    nocell(op, 3, 4, {"C05": T}, geo=(0, 1, 2), optional=SMALL_OPT)
nocell("RiOffMargin", 3, 4, {"C05": T}, geo=(3, 0, 1), optional=SMALL_OPT)
prnt(3, 4, 2, 0, 1, {"C04": Q, "C15": T, "C02": T}, opt=PR_OPT_NOSCROLL, mem=12)
for op in ("Il", "Dl"):
    scroll(op, 3, 4, 2, 0, 1, {"C06": T, "C15": Q if op == "Dl" else T, "C14": T}, mem=12)
switch("Enter1047", 3, 3, 0, {"C16": Q, "C02": T, "C17": T, "C08": T}, parked_rows=2, asrow=1, suffix="_stale_grow")
switch("Enter1049", 3, 3, 0, {"C16": T, "C17": T}, parked_rows=1, asrow=0, suffix="_stale_grow")

# RI on a top margin that is row 0 (downward scroll right below the scrollback)
for _i in INSTANCES:
    if _i["name"] == "sc_ri__3x3_r0_m02":
        _i["props"]["C06"] = Q
        _i["props"]["C14"] = Q
