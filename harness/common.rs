// crate::kv — the thin layer between the harness templates and Kani.
//
// Under `cfg(kani)` every `any_*` is a fresh nondeterministic value (kani::any) and
// `assume` is kani::assume.  Under `cfg(kverif_replay)` (native build used to re-execute a
// solver counterexample against the real code) the same calls pop the concrete values the
// solver chose from a queue, in the same order, and a violated assumption aborts the replay.
#![allow(dead_code)]

use crate::cell::Cell;
use crate::color::Color;
use crate::line::Line;
use crate::pen::{Intensity, Pen};

#[cfg(kani)]
mod imp {
    // one tiny, never-inlined function per type so that the counterexample trace shows the
    // chosen values as the return values of these functions, in call order
    #[inline(never)]
    pub fn any_bool() -> bool {
        let kv_nondet: bool = kani::any();
        kv_nondet
    }
    #[inline(never)]
    pub fn any_u8() -> u8 {
        let kv_nondet: u8 = kani::any();
        kv_nondet
    }
    #[inline(never)]
    pub fn any_u16() -> u16 {
        let kv_nondet: u16 = kani::any();
        kv_nondet
    }
    #[inline(never)]
    pub fn any_u32() -> u32 {
        let kv_nondet: u32 = kani::any();
        kv_nondet
    }
    #[inline(never)]
    pub fn any_usize() -> usize {
        let kv_nondet: usize = kani::any();
        kv_nondet
    }
    pub fn assume(c: bool) {
        kani::assume(c);
    }
}

#[cfg(not(kani))]
mod imp {
    use std::cell::RefCell;
    use std::collections::VecDeque;
    thread_local! {
        pub static QUEUE: RefCell<VecDeque<u64>> = RefCell::new(VecDeque::new());
    }
    fn pop() -> u64 {
        QUEUE.with(|q| q.borrow_mut().pop_front().expect("KV_REPLAY: ran out of recorded values"))
    }
    pub fn any_bool() -> bool {
        pop() != 0
    }
    pub fn any_u8() -> u8 {
        pop() as u8
    }
    pub fn any_u16() -> u16 {
        pop() as u16
    }
    pub fn any_u32() -> u32 {
        pop() as u32
    }
    pub fn any_usize() -> usize {
        pop() as usize
    }
    pub fn assume(c: bool) {
        if !c {
            panic!("KV_REPLAY: assumption violated");
        }
    }
}

pub use imp::*;

#[cfg(not(kani))]
pub fn replay_load(values: &[u64]) {
    imp::QUEUE.with(|q| {
        let mut q = q.borrow_mut();
        q.clear();
        q.extend(values.iter().copied());
    });
}

/// cover witness (vacuity guard); evaluates to nothing in replay builds
#[cfg(kani)]
#[macro_export]
macro_rules! kv_cover {
    ($cond:expr, $msg:literal) => {
        kani::cover!($cond, $msg);
    };
}
#[cfg(not(kani))]
#[macro_export]
macro_rules! kv_cover {
    ($cond:expr, $msg:literal) => {
        let _ = $cond;
    };
}

/// end-of-harness witness: must be SATISFIED, i.e. the assumptions are satisfiable and the
/// last statement of the harness is reached on some path
#[cfg(kani)]
#[macro_export]
macro_rules! kv_end {
    () => {
        kani::cover!(true, "[VAC] end of harness reached");
    };
}
#[cfg(not(kani))]
#[macro_export]
macro_rules! kv_end {
    () => {};
}

pub fn any_char() -> char {
    let v = any_u32();
    assume(v < 0xD800 || (v > 0xDFFF && v <= 0x10FFFF));
    unsafe { char::from_u32_unchecked(v) }
}

/// a value in lo..=hi
pub fn any_in(lo: usize, hi: usize) -> usize {
    let v = any_usize();
    assume(v >= lo && v <= hi);
    v
}

pub fn any_color() -> Color {
    if any_bool() {
        Color::Indexed(any_u8())
    } else {
        Color::rgb(any_u8(), any_u8(), any_u8())
    }
}

pub fn any_intensity() -> Intensity {
    let k = any_u8();
    assume(k < 3);
    match k {
        0 => Intensity::Normal,
        1 => Intensity::Bold,
        _ => Intensity::Faint,
    }
}

/// any pen a history can produce: the five attribute bits only (InvT clause G9)
pub fn any_pen() -> Pen {
    let attrs = any_u8();
    assume(attrs & !0x1f == 0);
    Pen {
        foreground: if any_bool() { Some(any_color()) } else { None },
        background: if any_bool() { Some(any_color()) } else { None },
        intensity: any_intensity(),
        attrs,
    }
}

pub fn pen_ok(p: &Pen) -> bool {
    p.attrs & !0x1f == 0
}

pub fn any_cell() -> Cell {
    Cell::new(any_char(), any_pen())
}

/// a line of exactly `cols` cells, contents and mark symbolic
pub fn any_line(cols: usize) -> Line {
    let mut cells = Vec::with_capacity(cols);
    for _ in 0..cols {
        cells.push(any_cell());
    }
    Line {
        cells,
        wrapped: any_bool(),
    }
}

/// a line of exactly `cols` cells with a *cheap* symbolic content: one symbolic pen for the
/// whole line and symbolic characters (used where the property does not depend on per-cell pens)
pub fn any_line_onepen(cols: usize) -> Line {
    let pen = any_pen();
    let mut cells = Vec::with_capacity(cols);
    for _ in 0..cols {
        cells.push(Cell::new(any_char(), pen));
    }
    Line {
        cells,
        wrapped: any_bool(),
    }
}

pub fn blank_line(cols: usize) -> Line {
    Line::blank(cols, Pen::default())
}

pub fn is_blank_with(c: &Cell, pen: &Pen) -> bool {
    c.char() == ' ' && c.pen() == pen
}
