// crate::kv — the thin layer between the harness templates and Kani.
//
// Under `cfg(kani)` every `any_*` is a fresh nondeterministic value (kani::any) and
// `assume` is kani::assume.  Under `cfg(kverif_replay)` (native build used to re-execute a
// solver counterexample against the real code) the same calls pop the concrete values the
// solver chose from a queue, in the same order, and a violated assumption aborts the replay.
#![allow(dead_code)]

use crate::cell::Cell;
use crate::color::Color;
use crate::line::Line;
use crate::pen::{Intensity, Pen};

#[cfg(kani)]
mod imp {
    // one tiny, never-inlined function per type so that the counterexample trace shows the
    // chosen values as the return values of these functions, in call order
    #[inline(never)]
    pub fn any_bool() -> bool {
        let kv_nondet: bool = kani::any();
        kv_nondet
    }
    #[inline(never)]
    pub fn any_u8() -> u8 {
        let kv_nondet: u8 = kani::any();
        kv_nondet
    }
    #[inline(never)]
    pub fn any_u16() -> u16 {
        let kv_nondet: u16 = kani::any();
        kv_nondet
    }
    #[inline(never)]
    pub fn any_u32() -> u32 {
        let kv_nondet: u32 = kani::any();
        kv_nondet
    }
    #[inline(never)]
    pub fn any_usize() -> usize {
        let kv_nondet: usize = kani::any();
        kv_nondet
    }
    pub fn assume(c: bool) {
        kani::assume(c);
    }
}

#[cfg(not(kani))]
mod imp {
    use std::cell::RefCell;
    use std::collections::VecDeque;
    thread_local! {
        pub static QUEUE: RefCell<VecDeque<u64>> = RefCell::new(VecDeque::new());
    }
    fn pop() -> u64 {
        match QUEUE.with(|q| q.borrow_mut().pop_front()) {
            Some(v) => v,
            None => {
                // the solver's trace ends at the failed check: once that check has failed here
                // too there is nothing left to follow
                super::stop_if_failed("recorded values end here");
                panic!("KV_REPLAY: ran out of recorded values")
            }
        }
    }
    pub fn any_bool() -> bool {
        pop() != 0
    }
    pub fn any_u8() -> u8 {
        pop() as u8
    }
    pub fn any_u16() -> u16 {
        pop() as u16
    }
    pub fn any_u32() -> u32 {
        pop() as u32
    }
    pub fn any_usize() -> usize {
        pop() as usize
    }
    pub fn assume(c: bool) {
        if !c {
            super::stop_if_failed("an assumption placed after the failed check does not hold");
            panic!("KV_REPLAY: assumption violated");
        }
    }
}

pub use imp::*;

#[cfg(not(kani))]
pub fn replay_load(values: &[u64]) {
    imp::QUEUE.with(|q| {
        let mut q = q.borrow_mut();
        q.clear();
        q.extend(values.iter().copied());
    });
}

/// Non-assuming assertion.  `kani::assert` asserts AND assumes its condition, so a failing check of
/// one property would cut every path on which the checks of other properties placed after it could
/// fail (seeds C02-a, C20-b, C16-b, C01-d were hidden that way).  Here the assumption is weakened by a
/// fresh nondeterministic bit: the check fails exactly when the condition can be false, and the path
/// continues either way, so every tagged check is decided independently of the ones before it.
/// In a native replay a failure is printed (`KV_ASSERT_FAILED: <message>`) and remembered; the run goes
/// on as far as the recorded values reach and exits 101.
#[cfg(kani)]
#[macro_export]
macro_rules! kv_assert {
    ($cond:expr, $msg:literal $(,)?) => {{
        let kv_c: bool = $cond;
        let kv_go_on: bool = kani::any();
        kani::assert(kv_c || kv_go_on, $msg);
    }};
}
#[cfg(not(kani))]
#[macro_export]
macro_rules! kv_assert {
    ($cond:expr, $msg:literal $(,)?) => {{
        if !($cond) {
            $crate::kv::replay_fail($msg);
        }
    }};
}

#[cfg(not(kani))]
pub static REPLAY_FAILED: std::sync::atomic::AtomicBool = std::sync::atomic::AtomicBool::new(false);
#[cfg(not(kani))]
pub fn replay_fail(msg: &str) {
    eprintln!("KV_ASSERT_FAILED: {}", msg);
    REPLAY_FAILED.store(true, std::sync::atomic::Ordering::SeqCst);
}
#[cfg(not(kani))]
pub fn replay_failed() -> bool {
    REPLAY_FAILED.load(std::sync::atomic::Ordering::SeqCst)
}
#[cfg(not(kani))]
pub fn stop_if_failed(why: &str) {
    if replay_failed() {
        eprintln!("KV_REPLAY: stopping after a failed harness assertion ({})", why);
        std::process::exit(101);
    }
}

/// cover witness (vacuity guard); evaluates to nothing in replay builds
#[cfg(kani)]
#[macro_export]
macro_rules! kv_cover {
    ($cond:expr, $msg:literal) => {
        kani::cover!($cond, $msg);
    };
}
#[cfg(not(kani))]
#[macro_export]
macro_rules! kv_cover {
    ($cond:expr, $msg:literal) => {
        let _ = $cond;
    };
}

/// end-of-harness witness: must be SATISFIED, i.e. the assumptions are satisfiable and the
/// last statement of the harness is reached on some path
#[cfg(kani)]
#[macro_export]
macro_rules! kv_end {
    () => {
        kani::cover!(true, "[VAC] end of harness reached");
    };
}
#[cfg(not(kani))]
#[macro_export]
macro_rules! kv_end {
    () => {};
}

pub fn any_char() -> char {
    let v = any_u32();
    assume(v < 0xD800 || (v > 0xDFFF && v <= 0x10FFFF));
    unsafe { char::from_u32_unchecked(v) }
}

/// a value in lo..=hi
pub fn any_in(lo: usize, hi: usize) -> usize {
    let v = any_usize();
    assume(v >= lo && v <= hi);
    v
}

pub fn any_color() -> Color {
    if any_bool() {
        Color::Indexed(any_u8())
    } else {
        Color::rgb(any_u8(), any_u8(), any_u8())
    }
}

pub fn any_intensity() -> Intensity {
    let k = any_u8();
    assume(k < 3);
    match k {
        0 => Intensity::Normal,
        1 => Intensity::Bold,
        _ => Intensity::Faint,
    }
}

/// any pen a history can produce: the five attribute bits only (InvT clause G9)
pub fn any_pen() -> Pen {
    let attrs = any_u8();
    assume(attrs & !0x1f == 0);
    let mut p = Pen::default();
    p.foreground = if any_bool() { Some(any_color()) } else { None };
    p.background = if any_bool() { Some(any_color()) } else { None };
    p.intensity = any_intensity();
    p.attrs = attrs;
    p
}

pub fn pen_ok(p: &Pen) -> bool {
    p.attrs & !0x1f == 0
}

pub fn any_cell() -> Cell {
    Cell::new(any_char(), any_pen())
}

/// a line of exactly `cols` cells, contents and mark symbolic
pub fn any_line(cols: usize) -> Line {
    let mut cells = Vec::with_capacity(cols);
    for _ in 0..cols {
        cells.push(any_cell());
    }
    let mut l = Line::blank(0, Pen::default());
    l.cells = cells;
    l.wrapped = any_bool();
    l
}

/// a line of exactly `cols` cells with a *cheap* symbolic content: one symbolic pen for the
/// whole line and symbolic characters (used where the property does not depend on per-cell pens)
pub fn any_line_onepen(cols: usize) -> Line {
    let pen = any_pen();
    let mut cells = Vec::with_capacity(cols);
    for _ in 0..cols {
        cells.push(Cell::new(any_char(), pen));
    }
    let mut l = Line::blank(0, Pen::default());
    l.cells = cells;
    l.wrapped = any_bool();
    l
}

pub fn blank_line(cols: usize) -> Line {
    Line::blank(cols, Pen::default())
}

pub fn is_blank_with(c: &Cell, pen: &Pen) -> bool {
    c.char() == ' ' && c.pen() == pen
}

// ------------------------------------------------------------------ stub for std's ptr_rotate
//
// `<[T]>::rotate_left/right(n)` with a symbolic n ends in core::slice::rotate::ptr_rotate, whose
// block-swap / memmove algorithm with symbolic lengths does not finish in CBMC.  Harnesses that
// reach it replace it (kani::stub) by this element-wise version with the same contract:
// the `left + right` elements starting at `mid - left` are rotated left by `left`.
// The stub itself is decided against that contract by t_rotate_stub below.
pub const ROT_MAX: usize = 8;

#[cfg(kani)]
pub unsafe fn stub_ptr_rotate<T>(left: usize, mid: *mut T, right: usize) {
    use std::mem::MaybeUninit;
    let len = left + right;
    assert!(len <= ROT_MAX, "[KV] rotate stub: slice longer than the stub's buffer");
    if left == 0 || right == 0 {
        return;
    }
    let start = mid.sub(left);
    let mut tmp: [MaybeUninit<T>; ROT_MAX] = [const { MaybeUninit::uninit() }; ROT_MAX];
    let mut i = 0;
    while i < len {
        tmp[i] = MaybeUninit::new(std::ptr::read(start.add(i)));
        i += 1;
    }
    let mut j = 0;
    while j < len {
        let mut src = j + left;
        if src >= len {
            src -= len;
        }
        std::ptr::write(start.add(j), tmp[src].assume_init_read());
        j += 1;
    }
}

/// the stub against its contract: out[i] == in[(i + left) % len], through the public
/// rotate_left / rotate_right entry points
#[cfg(kani)]
pub(crate) fn t_rotate_stub(len: usize) {
    let mut a = [0u32; ROT_MAX];
    let mut b = [0u32; ROT_MAX];
    let mut k = 0;
    while k < len {
        a[k] = any_u32();
        b[k] = a[k];
        k += 1;
    }
    let n = any_usize();
    assume(n <= len);
    let i = any_usize();
    assume(i < len);
    if any_bool() {
        b[..len].rotate_left(n);
        crate::kv_assert!(b[i] == a[(i + n) % len], "[KV] rotate stub meets the contract of rotate_left");
    } else {
        b[..len].rotate_right(n);
        crate::kv_assert!(b[(i + n) % len] == a[i], "[KV] rotate stub meets the contract of rotate_right");
    }
    crate::kv_end!();
}

#[cfg(not(kani))]
pub(crate) fn t_rotate_stub(_len: usize) {}
include!("kv_gen.rs");
