// Child module of src/buffer.rs (sees Buffer's private fields).
// Builders / accessors used by the terminal harnesses, plus the buffer-level families
// B-trim / B-drain (C13, C14) and the height-only resize kernel R-rows (C10, C02).
#![allow(dead_code)]
use super::*;
use crate::kv::*;
use crate::{kv_assert, kv_cover, kv_end};

#[derive(Clone, Copy, PartialEq)]
pub(crate) enum Fill {
    Blank,
    Sym,       // every cell: symbolic char and symbolic pen
    SymOnePen, // per line one symbolic pen, symbolic chars
}

pub(crate) fn mk_limit(l: Option<usize>) -> Option<ScrollbackLimit> {
    l.map(|l| ScrollbackLimit { soft: l, hard: l.saturating_add(l / 10) })
}

/// a buffer with `sb` scrollback lines above a view of `rows` lines, all `cols` wide; the last
/// line is not wrapped (InvT.G3); contents per `fill`; extra capacity so that pushes by the code
/// under test need not reallocate
pub(crate) fn mk_buffer(cols: usize, rows: usize, sb: usize, limit: Option<usize>, trim_needed: bool, fill: Fill) -> Buffer {
    let n = sb + rows;
    let mut lines: Vec<Line> = Vec::with_capacity(n + 4);
    for i in 0..n {
        let mut l = match fill {
            Fill::Blank => blank_line(cols),
            Fill::Sym => any_line(cols),
            Fill::SymOnePen => any_line_onepen(cols),
        };
        if i == n - 1 {
            l.wrapped = false;
        }
        lines.push(l);
    }
    // real constructor + field assignments (no struct literal, see terminal.rs any_saved_ctx)
    let mut b = Buffer::new(cols, rows, Some(0), None);
    b.lines = lines;
    b.cols = cols;
    b.rows = rows;
    b.scrollback_limit = mk_limit(limit);
    b.trim_needed = trim_needed;
    b
}

pub(crate) fn b_lines(b: &Buffer) -> &Vec<Line> {
    &b.lines
}
pub(crate) fn b_len(b: &Buffer) -> usize {
    b.lines.len()
}
pub(crate) fn b_trim_needed(b: &Buffer) -> bool {
    b.trim_needed
}
pub(crate) fn b_set_trim_needed(b: &mut Buffer, v: bool) {
    b.trim_needed = v;
}
pub(crate) fn b_limit(b: &Buffer) -> Option<(usize, usize)> {
    b.scrollback_limit.as_ref().map(|l| (l.soft, l.hard))
}
pub(crate) fn b_set_limit(b: &mut Buffer, l: Option<usize>) {
    b.scrollback_limit = mk_limit(l);
}
/// cell at absolute line index `i` (0 = oldest scrollback line)
pub(crate) fn b_cell(b: &Buffer, i: usize, c: usize) -> Cell {
    b.lines[i].cells[c]
}
pub(crate) fn b_wrapped(b: &Buffer, i: usize) -> bool {
    b.lines[i].wrapped
}
pub(crate) fn b_line_len(b: &Buffer, i: usize) -> usize {
    b.lines[i].cells.len()
}
pub(crate) fn b_set_wrapped(b: &mut Buffer, i: usize, v: bool) {
    b.lines[i].wrapped = v;
}
pub(crate) fn b_set_line(b: &mut Buffer, i: usize, l: Line) {
    b.lines[i] = l;
}
pub(crate) fn b_forget(b: Buffer) {
    std::mem::forget(b);
}

/// InvT.G3 for one buffer, at witness indices
pub(crate) fn assert_buffer_inv(b: &Buffer) {
    kv_assert!(b.rows >= 1 && b.cols >= 1, "[C02][C01] a buffer always has at least one row and one column");
    kv_assert!(b.lines.len() >= b.rows, "[C02][C01] lines() is never shorter than rows");
    let i = any_usize();
    assume(i < b.lines.len());
    kv_assert!(b.lines[i].cells.len() == b.cols, "[C02][C01] every line has exactly cols cells");
    kv_assert!(!b.lines[b.lines.len() - 1].wrapped, "[C02][C01] the last line is never marked soft-wrapped");
    if let Some(l) = &b.scrollback_limit {
        kv_assert!(l.hard == l.soft.saturating_add(l.soft / 10), "[C13][C01] the hard limit is the soft limit plus 10%");
        if b.lines.len() - b.rows > l.hard {
            kv_assert!(b.trim_needed, "[C13][C01][C06] exceeding the retention bound is always flagged for trimming (so that the limit holds and the alternate screen keeps none)");
        }
    }
}

/// B-new: Buffer::new for ANY scrollback limit on a tiny screen: returns normally (no capacity /
/// arithmetic overflow), rows blank lines, hard == soft + soft/10 (saturating), nothing pending
pub(crate) fn t_buffer_new_any_limit() {
    let limit = any_usize();
    let b = Buffer::new(1, 1, Some(limit), None);
    kv_assert!(b.lines.len() == 1 && b.lines[0].cells.len() == 1 && !b.trim_needed, "[C01][C02] a fresh buffer holds exactly the visible rows");
    match &b.scrollback_limit {
        Some(l) => {
            kv_assert!(l.soft == limit && l.hard >= l.soft, "[C13] the configured limit is kept, with a slack that never wraps around");
            if limit <= usize::MAX / 2 {
                kv_assert!(l.hard == limit + limit / 10, "[C13] the hard limit is the soft limit plus 10%");
            }
        }
        None => kv_assert!(false, "[C13] a configured limit is not dropped"),
    }
    kv_cover!(limit > (1usize << 62), "huge limit");
    kv_cover!(limit == 0, "limit 0");
    kv_end!();
    std::mem::forget(b);
}

/// R-pos: relative_position(logical_position(p)) == p at a fixed width, for any soft-wrap marks
pub(crate) fn t_rpos(cols: usize, rows: usize, sb: usize) {
    let b = mk_buffer(cols, rows, sb, None, false, Fill::Blank);
    // marks symbolic (the last line stays unwrapped)
    let mut b = b;
    let n = b.lines.len();
    for i in 0..n - 1 {
        b.lines[i].wrapped = any_bool();
    }
    let c = any_in(0, cols - 1);
    let r = any_in(0, rows - 1);
    let log = b.logical_position((c, r), cols, rows);
    let rel = b.relative_position(log, cols, rows);
    kv_assert!(rel.0 == c && rel.1 == r as isize, "[C10] translating the cursor to its logical position and back is the identity at a fixed width");
    // the logical column counts the cells of the wrapped rows before it
    let abs = n - rows + r;
    let mut k = 0usize;
    let mut i = abs;
    while i > 0 && b.lines[i - 1].wrapped {
        k += 1;
        i -= 1;
    }
    kv_assert!(log.0 == c + k * cols, "[C10] the logical column counts whole rows of the same logical line");
    kv_cover!(k >= 2, "third row of a logical line");
    kv_end!();
    std::mem::forget(b);
}

impl Buffer {
    /// contract of Buffer::resize used by the two glue harnesses that need to get past a *width*
    /// change (the reflow code itself is out of CBMC's reach, DESIGN.md section 0): the geometry
    /// fields take the new values and the returned cursor lies inside the new screen.  Lines are
    /// NOT re-wrapped by this stub, so those harnesses assert nothing about lines.
    pub(crate) fn kv_resize_contract(&mut self, new_cols: usize, new_rows: usize, _cursor: (usize, usize)) -> (usize, usize) {
        self.cols = new_cols;
        self.rows = new_rows;
        self.trim_needed = true;
        let c = any_usize();
        let r = any_usize();
        assume(c < new_cols && r < new_rows);
        (c, r)
    }
}

include!("buffer_gen.rs");
