// Child module of src/vt.rs (sees Vt's private parser and terminal).  V-none, V-query.
#![allow(dead_code, static_mut_refs)]
use super::*;
use crate::buffer::kverif::Fill;
use crate::kv::*;
use crate::parser::kverif::any_parser;
use crate::parser::State;
use crate::terminal::kverif::*;
use crate::{kv_assert, kv_cover, kv_end};

fn string_state(k: u8) -> State {
    match k {
        0 => State::OscString,
        1 => State::SosPmApcString,
        2 => State::DcsPassthrough,
        3 => State::DcsIgnore,
        4 => State::DcsEntry,
        5 => State::DcsParam,
        _ => State::DcsIntermediate,
    }
}

/// V-none: Vt::feed(ch) with the parser inside a control string and a payload character leaves
/// the terminal exactly as it was (no cell, cursor, mode, changed line)
pub(crate) fn t_vt_none(c: TCfg) {
    let k = any_u8();
    assume(k < 7);
    let st = string_state(k);
    let terminal = mk_terminal(&c);
    let pre = snap(&terminal);
    let tw = tab_witness(&terminal);
    let w = any_wit(pre.len, c.cols);
    let e = resolve(&terminal, &w, Src::Same, MSrc::Same, pre.len);
    let mut vt = Vt {
        parser: any_parser(st, 0),
        terminal,
    };
    let ch = any_char();
    let v = ch as u32;
    // the payload class of C20
    assume(v >= 0xa0 || (0x20..=0x7f).contains(&v) || (v < 0x20 && v != 0x18 && v != 0x1a && v != 0x1b && !(v == 7 && k == 0)));
    unsafe {
        EXEC_CALLS = 0;
    }
    vt.feed(ch);
    // Terminal::execute is a recorder in this harness: Vt::feed reaches the terminal only through it
    #[cfg(kani)]
    kv_assert!(unsafe { EXEC_CALLS } == 0, "[C20] control-string payload never reaches the terminal");
    let allow = Allow::default();
    frame(&pre, &vt.terminal, &allow, &tw);
    let post = cell_at(&vt.terminal, w.i, w.c);
    kv_assert!(Some(post) == e_cell(&e) && Some(mark_at(&vt.terminal, w.i)) == e_mark(&e), "[C20] control-string payload changes no cell");
    let r = any_in(0, c.rows - 1);
    kv_assert!(vt.changes_flag(r) == false, "[C20] control-string payload reports no changed line");
    kv_end!();
    let Vt { parser: _, terminal } = vt;
    forget(terminal);
}

impl Vt {
    fn changes_flag(&self, r: usize) -> bool {
        dirty_flag(&self.terminal, r)
    }
}

/// V-query: view() has exactly rows lines and is the tail of lines(); line(n), cursor(), size()
/// return normally and agree with them, from any InvT state
pub(crate) fn t_vt_query(c: TCfg) {
    let terminal = mk_terminal(&c);
    let vt = Vt {
        parser: Parser::new(),
        terminal,
    };
    let (cols, rows) = vt.size();
    kv_assert!(cols == c.cols && rows == c.rows, "[C02] size() reports the geometry");
    let view = vt.view();
    let lines = vt.lines();
    kv_assert!(view.len() == rows, "[C02] view() has exactly rows lines");
    kv_assert!(lines.len() >= rows, "[C02] lines() is never shorter than rows");
    kv_assert!(std::ptr::eq(view.as_ptr(), lines[lines.len() - rows..].as_ptr()), "[C02] view() is the tail of lines()");
    let n = any_in(0, rows - 1);
    kv_assert!(std::ptr::eq(vt.line(n), &view[n]), "[C02] line(n) is the n-th visible line");
    kv_assert!(view[n].len() == cols && view[n].cells().len() == cols, "[C02] every line has exactly cols cells");
    let cur = vt.cursor();
    kv_assert!(cur.row < rows && cur.col <= cols, "[C02] the cursor lies inside the screen (col == cols only when a wrap is pending)");
    let _ = vt.cursor_key_app_mode();
    kv_end!();
    let Vt { parser: _, terminal } = vt;
    forget(terminal);
}

/// V-glue: Vt::feed_str(s) for a one-character string (any ASCII character), from any parser
/// state: the parser ends exactly where Parser::feed leaves a twin parser - so a sequence cut
/// between two calls is continued (C12: by induction over the calls, any chunking drives the parser
/// through the same states) - and Terminal::execute is reached exactly when the parser produced a
/// function (recorder stub).  What else ends a call (changes + gc) is decided by t_changes / t_gc.
pub(crate) fn t_vt_glue(cols: usize, rows: usize) {
    let st = crate::parser::kverif::any_state();
    let p1 = any_parser(st, 0);
    let mut p2 = any_parser(st, 0);
    crate::parser::kverif::copy_parser(&p1, &mut p2);
    let mut terminal = Terminal::new((cols, rows), Some(1));
    std::mem::forget(terminal.changes());
    let mut vt = Vt { parser: p1, terminal };
    let b0 = any_u8();
    assume(b0 < 0x80);
    let bytes = [b0];
    let s = unsafe { std::str::from_utf8_unchecked(&bytes) };
    unsafe {
        EXEC_CALLS = 0;
    }
    {
        let ch = vt.feed_str(s);
        std::mem::forget(ch);
    }
    let o0 = p2.feed(b0 as char);
    let want_calls = o0.is_some() as u32;
    std::mem::forget(o0);
    kv_assert!(crate::parser::kverif::same_parser(&vt.parser, &p2), "[C12] a feed_str call leaves the parser exactly where feeding its characters one at a time leaves it (sequences may be cut anywhere)");
    #[cfg(kani)]
    kv_assert!(unsafe { EXEC_CALLS } == want_calls, "[C12][C20] the terminal is reached exactly once per function the parser produced");
    let _ = want_calls;
    kv_cover!(vt.parser.state == State::OscString, "the call ends inside an OSC string");
    kv_cover!(vt.parser.state == State::CsiParam, "the call ends inside CSI parameters");
    kv_end!();
    let Vt { parser: _, terminal } = vt;
    forget(terminal);
}

/// V-calls: the call structure of the two mutating entry points (Terminal methods replaced by
/// call loggers): `resize` = Terminal::resize, then changes(), then gc(), each exactly once;
/// `feed_str("ab")` = execute per printable character, then changes() and gc() exactly once.
/// Composes t_resize_* / t_changes / t_gc / the execute families into the public calls.
pub(crate) fn t_vt_calls() {
    let terminal = Terminal::new((2, 2), Some(1));
    let mut vt = Vt { parser: Parser::new(), terminal };
    let cols = any_in(1, 9);
    let rows = any_in(1, 9);
    unsafe {
        CALL_N = 0;
    }
    {
        let ch = vt.resize(cols, rows);
        std::mem::forget(ch);
    }
    #[cfg(kani)]
    {
        let (n, log) = unsafe { (CALL_N, CALL_LOG) };
        kv_assert!(n == 3 && log[0] == 1 && log[1] == 2 && log[2] == 3, "[C13][C15][C12] Vt::resize resizes the terminal, collects the changed lines and trims the scrollback, once each");
        kv_assert!(vt.size() == (cols, rows), "[C02] size() reports the geometry last requested");
    }
    // native replay: the real methods ran; judge the same clause from its observable effects
    #[cfg(not(kani))]
    {
        let ok = vt.size() == (cols, rows) && !dirty_flag(&vt.terminal, 0) && !terminal_trim_pending(&vt.terminal);
        kv_assert!(ok, "[C13][C15][C12] Vt::resize resizes the terminal, collects the changed lines and trims the scrollback, once each");
    }
    unsafe {
        CALL_N = 0;
    }
    #[cfg(not(kani))]
    terminal_set_trim_pending(&mut vt.terminal);
    {
        let ch = vt.feed_str("ab");
        std::mem::forget(ch);
    }
    #[cfg(not(kani))]
    {
        let ok = !dirty_flag(&vt.terminal, 0) && !terminal_trim_pending(&vt.terminal) && vt.view()[0].cells()[0].char() == 'a';
        kv_assert!(ok, "[C13][C15][C12] Vt::feed_str executes every function, then collects the changed lines and trims the scrollback, once each");
    }
    #[cfg(kani)]
    {
        let (n, log) = unsafe { (CALL_N, CALL_LOG) };
        kv_assert!(n == 4 && log[0] == 4 && log[1] == 4 && log[2] == 2 && log[3] == 3, "[C13][C15][C12] Vt::feed_str executes every function, then collects the changed lines and trims the scrollback, once each");
    }
    unsafe {
        CALL_N = 0;
    }
    vt.feed('c');
    #[cfg(kani)]
    {
        let (n, log) = unsafe { (CALL_N, CALL_LOG) };
        kv_assert!(n == 1 && log[0] == 4, "[C12] Vt::feed only executes the function");
    }
    kv_end!();
    let Vt { parser: _, terminal } = vt;
    forget(terminal);
}

include!("vt_gen.rs");
