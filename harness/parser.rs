// Child module of src/parser.rs (sees Parser's private fields and helpers).
// Properties C03, C20, parts of C01 and C08.
#![allow(dead_code, static_mut_refs)]
use super::*;
use crate::kv::*;
use crate::{kv_assert, kv_cover, kv_end};

// ------------------------------------------------------------------ InvP and state builders

pub(crate) const STATES: [State; 14] = [
    State::Ground,
    State::Escape,
    State::EscapeIntermediate,
    State::CsiEntry,
    State::CsiParam,
    State::CsiIntermediate,
    State::CsiIgnore,
    State::DcsEntry,
    State::DcsParam,
    State::DcsIntermediate,
    State::DcsPassthrough,
    State::DcsIgnore,
    State::OscString,
    State::SosPmApcString,
];

pub(crate) fn any_state() -> State {
    let k = any_usize();
    assume(k < 14);
    STATES[k]
}

fn any_intermediate() -> Option<char> {
    if any_bool() {
        Some(any_char())
    } else {
        None
    }
}

/// any Param satisfying InvP.P1/P2: cur_part <= 5, parts beyond cur_part are zero
/// (written without a loop so that harness unwind bounds are dictated by the code under test)
fn any_param() -> Param {
    let cur_part = any_usize();
    assume(cur_part <= 5);
    let parts = [any_u16(), any_u16(), any_u16(), any_u16(), any_u16(), any_u16()];
    assume(cur_part >= 1 || parts[1] == 0);
    assume(cur_part >= 2 || parts[2] == 0);
    assume(cur_part >= 3 || parts[3] == 0);
    assume(cur_part >= 4 || parts[4] == 0);
    assume(cur_part >= 5 || parts[5] == 0);
    let mut q = Param::default();
    q.cur_part = cur_part;
    q.parts = parts;
    q
}

/// any parser satisfying InvP with the given cur_param (concrete per instance) and state
pub(crate) fn any_parser(state: State, cur_param: usize) -> Parser {
    let mut p = Parser::new();
    p.state = state;
    p.cur_param = cur_param;
    p.intermediate = any_intermediate();
    for i in 0..=cur_param {
        p.params[i] = any_param();
    }
    p
}

/// field-by-field copy / comparison (Parser is neither Clone nor PartialEq)
pub(crate) fn copy_parser(a: &Parser, b: &mut Parser) {
    b.state = a.state;
    b.cur_param = a.cur_param;
    b.intermediate = a.intermediate;
    for i in 0..PARAMS_LEN {
        b.params[i] = a.params[i].clone();
    }
}
pub(crate) fn same_parser(a: &Parser, b: &Parser) -> bool {
    let i = any_usize();
    assume(i < PARAMS_LEN);
    a.state == b.state && a.cur_param == b.cur_param && a.intermediate == b.intermediate && a.params[i] == b.params[i]
}

/// InvP, asserted at witness indices
fn assert_inv_p(p: &Parser, tag_c01: bool) {
    let _ = tag_c01;
    kv_assert!(p.cur_param < PARAMS_LEN, "[C01] parser invariant: cur_param stays below 32");
    let i = any_usize();
    assume(i < PARAMS_LEN);
    let j = any_usize();
    assume(j < MAX_PARAM_LEN);
    kv_assert!(p.params[i].cur_part < MAX_PARAM_LEN, "[C01] parser invariant: cur_part stays below 6");
    if i > p.cur_param {
        kv_assert!(
            p.params[i].cur_part == 0 && p.params[i].parts[j] == 0,
            "[C03] parser invariant: parameters beyond the current one are clear"
        );
    }
    if j > p.params[i].cur_part {
        kv_assert!(p.params[i].parts[j] == 0, "[C03] parser invariant: sub-parameters beyond the current one are clear");
    }
}

fn params_all_default(p: &Parser) -> bool {
    let i = any_usize();
    assume(i < PARAMS_LEN);
    let j = any_usize();
    assume(j < MAX_PARAM_LEN);
    p.params[i].cur_part == 0 && p.params[i].parts[j] == 0
}

// ------------------------------------------------------------------ reference transition table

#[derive(Clone, Copy, PartialEq, Debug)]
pub(crate) enum Act {
    Ignore,
    Print,
    Execute,
    Collect,
    Param,
    Clear,
    EscDispatch,
    CsiDispatch,
    Put,
    OscPut,
}

fn is_c0x(c: u32) -> bool {
    c <= 0x17 || c == 0x19 || (0x1c..=0x1f).contains(&c)
}

/// Williams' DEC-compatible parser diagram with the four deviations named in C03.
/// Written from the diagram / property statement, not from the code.
pub(crate) fn ref_step(s: State, ch: char) -> (State, Act) {
    use State::*;
    let real = ch as u32;
    // deviation: every code point >= U+00A0 is handled like an ordinary final-class printable
    let c = if real >= 0xa0 { 0x41 } else { real };
    // "anywhere" transitions
    match c {
        0x18 | 0x1a => return (Ground, Act::Execute),
        0x1b => return (Escape, Act::Clear),
        0x80..=0x8f | 0x91..=0x97 | 0x99 | 0x9a => return (Ground, Act::Execute),
        0x90 => return (DcsEntry, Act::Clear),
        0x9b => return (CsiEntry, Act::Clear),
        0x9c => return (Ground, Act::Ignore),
        0x9d => return (OscString, Act::Ignore),
        0x98 | 0x9e | 0x9f => return (SosPmApcString, Act::Ignore),
        _ => {}
    }
    let c0 = is_c0x(c);
    match s {
        Ground => {
            if c0 {
                (Ground, Act::Execute)
            } else {
                (Ground, Act::Print)
            }
        }
        Escape => match c {
            _ if c0 => (Escape, Act::Execute),
            0x20..=0x2f => (EscapeIntermediate, Act::Collect),
            0x5b => (CsiEntry, Act::Clear),
            0x5d => (OscString, Act::Ignore),
            0x50 => (DcsEntry, Act::Clear),
            0x58 | 0x5e | 0x5f => (SosPmApcString, Act::Ignore),
            0x7f => (Escape, Act::Ignore),
            _ => (Ground, Act::EscDispatch),
        },
        EscapeIntermediate => match c {
            _ if c0 => (EscapeIntermediate, Act::Execute),
            0x20..=0x2f => (EscapeIntermediate, Act::Collect),
            0x7f => (EscapeIntermediate, Act::Ignore),
            _ => (Ground, Act::EscDispatch),
        },
        CsiEntry => match c {
            _ if c0 => (CsiEntry, Act::Execute),
            0x20..=0x2f => (CsiIntermediate, Act::Collect),
            0x30..=0x39 | 0x3b => (CsiParam, Act::Param),
            0x3a => (CsiIgnore, Act::Ignore),
            0x3c..=0x3f => (CsiParam, Act::Collect),
            0x7f => (CsiEntry, Act::Ignore),
            _ => (Ground, Act::CsiDispatch),
        },
        CsiParam => match c {
            _ if c0 => (CsiParam, Act::Execute),
            0x20..=0x2f => (CsiIntermediate, Act::Collect),
            // deviation: ':' separates sub-parameters
            0x30..=0x3b => (CsiParam, Act::Param),
            0x3c..=0x3f => (CsiIgnore, Act::Ignore),
            0x7f => (CsiParam, Act::Ignore),
            _ => (Ground, Act::CsiDispatch),
        },
        CsiIntermediate => match c {
            _ if c0 => (CsiIntermediate, Act::Execute),
            0x20..=0x2f => (CsiIntermediate, Act::Collect),
            0x30..=0x3f => (CsiIgnore, Act::Ignore),
            0x7f => (CsiIntermediate, Act::Ignore),
            _ => (Ground, Act::CsiDispatch),
        },
        CsiIgnore => match c {
            _ if c0 => (CsiIgnore, Act::Execute),
            0x20..=0x3f | 0x7f => (CsiIgnore, Act::Ignore),
            _ => (Ground, Act::Ignore),
        },
        DcsEntry => match c {
            _ if c0 => (DcsEntry, Act::Ignore),
            0x20..=0x2f => (DcsIntermediate, Act::Collect),
            0x30..=0x39 | 0x3b => (DcsParam, Act::Param),
            0x3a => (DcsIgnore, Act::Ignore),
            0x3c..=0x3f => (DcsParam, Act::Collect),
            0x7f => (DcsEntry, Act::Ignore),
            _ => (DcsPassthrough, Act::Ignore),
        },
        DcsParam => match c {
            _ if c0 => (DcsParam, Act::Ignore),
            0x20..=0x2f => (DcsIntermediate, Act::Collect),
            0x30..=0x39 | 0x3b => (DcsParam, Act::Param),
            0x3a | 0x3c..=0x3f => (DcsIgnore, Act::Ignore),
            0x7f => (DcsParam, Act::Ignore),
            _ => (DcsPassthrough, Act::Ignore),
        },
        DcsIntermediate => match c {
            _ if c0 => (DcsIntermediate, Act::Ignore),
            0x20..=0x2f => (DcsIntermediate, Act::Collect),
            0x30..=0x3f => (DcsIgnore, Act::Ignore),
            0x7f => (DcsIntermediate, Act::Ignore),
            _ => (DcsPassthrough, Act::Ignore),
        },
        DcsPassthrough => match c {
            0x7f => (DcsPassthrough, Act::Ignore),
            _ => (DcsPassthrough, Act::Put),
        },
        DcsIgnore => (DcsIgnore, Act::Ignore),
        OscString => match c {
            // deviation: BEL also ends an OSC string
            0x07 => (Ground, Act::Ignore),
            _ if c0 => (OscString, Act::Ignore),
            _ => (OscString, Act::OscPut),
        },
        SosPmApcString => (SosPmApcString, Act::Ignore),
    }
}

// ------------------------------------------------------------------ recorder stubs (P-trans only)

static mut REC_ACT: u8 = 0; // 0 = none
static mut REC_CHAR: u32 = 0;
static mut REC_CALLS: u8 = 0;

fn rec(which: u8, ch: u32) {
    unsafe {
        REC_ACT = which;
        REC_CHAR = ch;
        REC_CALLS += 1;
    }
}

impl Parser {
    fn kv_rec_clear(&mut self) {
        rec(1, 0);
    }
    fn kv_rec_collect(&mut self, input: char) {
        rec(2, input as u32);
    }
    fn kv_rec_param(&mut self, input: char) {
        rec(3, input as u32);
    }
    fn kv_rec_execute(&mut self, input: char) -> Option<Function> {
        rec(4, input as u32);
        None
    }
    fn kv_rec_esc_dispatch(&mut self, input: char) -> Option<Function> {
        rec(5, input as u32);
        None
    }
    fn kv_rec_csi_dispatch(&mut self, input: char) -> Option<Function> {
        rec(6, input as u32);
        None
    }
    fn kv_rec_put(&mut self, input: char) {
        rec(7, input as u32);
    }
    fn kv_rec_osc_put(&mut self, input: char) {
        rec(8, input as u32);
    }
}

// ---- contract stubs (each is justified by a harness that decides the real function directly)
impl Param {
    /// contract of Param::clear for a Param satisfying zero-beyond (decided by t_p_param_clear):
    /// everything is zero afterwards.  Used where the real `fill` with a symbolic length would
    /// make CBMC's symbolic execution of `feed` explode.
    fn kv_clear_spec(&mut self) {
        self.parts = [0; MAX_PARAM_LEN];
        self.cur_part = 0;
    }
}
/// the list builders of csi_dispatch (SM/RM/DECSET/DECRST/SGR arms), switched off in the harness
/// that decides the *scalar* arms only (those finals are assumed away there)
fn kv_no_ansi_mode(_p: &Param) -> Option<AnsiMode> {
    None
}
fn kv_no_dec_mode(_p: &Param) -> Option<DecMode> {
    None
}
impl Parser {
    /// csi_dispatch switched off in feed-level harnesses with a symbolic character (its list
    /// building makes symbolic execution explode); decided on its own by t_p_csi_*
    fn kv_no_csi_dispatch(&mut self, _input: char) -> Option<Function> {
        None
    }
}
impl<'a> SgrOps<'a> {
    fn kv_no_next(&mut self) -> Option<SgrOp> {
        None
    }
}

fn act_code(a: Act) -> u8 {
    match a {
        Act::Ignore | Act::Print => 0,
        Act::Clear => 1,
        Act::Collect => 2,
        Act::Param => 3,
        Act::Execute => 4,
        Act::EscDispatch => 5,
        Act::CsiDispatch => 6,
        Act::Put => 7,
        Act::OscPut => 8,
    }
}

/// P-trans: for every state and every scalar value, next state and kind of action agree with
/// the table (the eight action helpers are replaced by recorders in this harness only)
pub(crate) fn t_p_trans() {
    let s = any_state();
    let ch = any_char();
    let mut p = Parser::new();
    p.state = s;
    p.intermediate = any_intermediate();
    unsafe {
        REC_ACT = 0;
        REC_CHAR = 0;
        REC_CALLS = 0;
    }
    let out = p.feed(ch);
    let (want_state, want_act) = ref_step(s, ch);
    kv_assert!(p.state == want_state, "[C03][C20] next state agrees with the DEC/ANSI parser table");
    let (ract, rchar, rcalls) = unsafe { (REC_ACT, REC_CHAR, REC_CALLS) };
    match want_act {
        Act::Print => {
            kv_assert!(out == Some(Function::Print(ch)), "[C03] printable text in ground state is printed as is");
            kv_assert!(rcalls == 0, "[C03] print performs no other action");
        }
        Act::Ignore => {
            // two clauses so that the counterexample of the first one is a control that has a function:
            // only then does the real Parser::execute (no recorder in a native replay) show the difference
            if ref_exec(ch).is_some() {
                kv_assert!(out.is_none() && rcalls == 0, "[C03][C20] an ignored control character is not executed");
            } else {
                kv_assert!(out.is_none() && rcalls == 0, "[C03][C20] ignored characters cause no action");
            }
        }
        a => {
            // under Kani the helpers are recorders; in a native replay the real helpers ran, so
            // the same clause is judged from what is observable (returned function / fields)
            #[cfg(kani)]
            {
                kv_assert!(rcalls == 1 && ract == act_code(a), "[C03][C20] kind of action agrees with the DEC/ANSI parser table");
                if a != Act::Clear {
                    kv_assert!(rchar == ch as u32, "[C03] the action receives the input character itself");
                }
                kv_assert!(out.is_none(), "[C03] recorded dispatch returns through the helper only");
            }
            #[cfg(not(kani))]
            {
                let _ = (ract, rchar, rcalls);
                let ok = match a {
                    Act::Execute => out == ref_exec(ch),
                    Act::Collect => out.is_none() && p.intermediate == Some(ch),
                    Act::Clear => out.is_none() && p.intermediate.is_none() && p.cur_param == 0,
                    Act::Put | Act::OscPut | Act::Param => out.is_none(),
                    _ => true,
                };
                kv_assert!(ok, "[C03][C20] kind of action agrees with the DEC/ANSI parser table");
            }
        }
    }
    kv_cover!(s == State::CsiParam && ch == ':', "':' inside CSI parameters");
    kv_cover!(s == State::OscString && ch == '\u{7}', "BEL ends OSC");
    kv_cover!(ch as u32 >= 0xa0 && want_act == Act::EscDispatch, "non-ASCII final after ESC");
    kv_cover!(want_state == State::SosPmApcString, "SOS/PM/APC entered");
    kv_cover!(want_state == State::DcsPassthrough, "DCS passthrough entered");
    kv_cover!(s == State::DcsIgnore && want_state == State::Ground, "ST ends an ignored DCS");
    kv_end!();
}

// ------------------------------------------------------------------ P-act: the helpers themselves

/// Param::add_digit / add_part from any Param
pub(crate) fn t_p_param_kernel() {
    let mut q = any_param();
    let old = q.clone();
    let d = any_u8();
    assume(d <= 9);
    let j = any_usize();
    assume(j < MAX_PARAM_LEN);
    if any_bool() {
        q.add_digit(d);
        let want = ((old.parts[old.cur_part] as u32 * 10 + d as u32) % 65536) as u16;
        kv_assert!(q.cur_part == old.cur_part, "[C03] a digit stays in the current sub-parameter");
        if j == old.cur_part {
            kv_assert!(q.parts[j] == want, "[C03] digits accumulate decimally (mod 2^16)");
        } else {
            kv_assert!(q.parts[j] == old.parts[j], "[C03] a digit changes only the current sub-parameter");
        }
        kv_cover!(old.parts[old.cur_part] == 65535, "digit after 65535");
    } else {
        q.add_part();
        kv_assert!(q.cur_part == if old.cur_part < 5 { old.cur_part + 1 } else { 5 }, "[C03] ':' advances the sub-parameter, at most 6 of them");
        kv_assert!(q.parts[j] == old.parts[j], "[C03] ':' changes no value");
        kv_cover!(old.cur_part == 5, "seventh sub-parameter");
    }
    kv_end!();
}

/// Parser::param(c) for c in 0x30..=0x3b from any InvP parser (cur_param concrete per instance)
pub(crate) fn t_p_param(cur_param: usize) {
    let mut p = any_parser(any_state(), cur_param);
    let c = any_char();
    assume(('0'..=';').contains(&c));
    let i = any_usize();
    assume(i < PARAMS_LEN);
    let j = any_usize();
    assume(j < MAX_PARAM_LEN);
    let old_part = p.params[i].parts[j];
    let old_cur_part = p.params[i].cur_part;
    let old_state = p.state;
    let old_int = p.intermediate;
    let cp_cur_part = p.params[cur_param].cur_part;
    p.param(c);
    kv_assert!(p.state == old_state && p.intermediate == old_int, "[C03] a parameter character changes neither state nor intermediate");
    if c == ';' {
        kv_assert!(p.cur_param == if cur_param < 31 { cur_param + 1 } else { 31 }, "[C03] ';' starts the next parameter, at most 32 of them");
        kv_assert!(p.params[i].parts[j] == old_part && p.params[i].cur_part == old_cur_part, "[C03] ';' changes no value");
    } else if c == ':' {
        kv_assert!(p.cur_param == cur_param, "[C03] ':' stays in the current parameter");
        kv_assert!(p.params[i].parts[j] == old_part, "[C03] ':' changes no value");
        if i == cur_param {
            kv_assert!(p.params[i].cur_part == if old_cur_part < 5 { old_cur_part + 1 } else { 5 }, "[C03] ':' advances the sub-parameter");
        } else {
            kv_assert!(p.params[i].cur_part == old_cur_part, "[C03] ':' touches only the current parameter");
        }
    } else {
        let d = c as u32 - 0x30;
        kv_assert!(p.cur_param == cur_param, "[C03] a digit stays in the current parameter");
        kv_assert!(p.params[i].cur_part == old_cur_part, "[C03] a digit keeps the sub-parameter index");
        if i == cur_param && j == cp_cur_part {
            kv_assert!(p.params[i].parts[j] == ((old_part as u32 * 10 + d) % 65536) as u16, "[C03] digits accumulate decimally (mod 2^16)");
        } else {
            kv_assert!(p.params[i].parts[j] == old_part, "[C03] a digit changes only the current sub-parameter");
        }
    }
    assert_inv_p(&p, true);
    kv_end!();
}

/// Param::clear from any Param: everything zero afterwards (this is where InvP.P2 is used)
pub(crate) fn t_p_param_clear() {
    let mut q = any_param();
    q.clear();
    let j = any_usize();
    assume(j < MAX_PARAM_LEN);
    kv_assert!(q.cur_part == 0 && q.parts[j] == 0, "[C03] clearing a parameter leaves no stale sub-parameter");
    kv_end!();
}

/// Parser::clear from any InvP parser, cur_param concrete per instance: a full reset
pub(crate) fn t_p_clear(cur_param: usize) {
    let mut p = any_parser(any_state(), cur_param);
    let st = p.state;
    p.clear();
    kv_assert!(p.cur_param == 0 && p.intermediate.is_none(), "[C03] entering a sequence forgets the previous parameter count and intermediate");
    kv_assert!(params_all_default(&p), "[C03] entering a sequence forgets every previous parameter value");
    kv_assert!(p.state == st, "[C03] clear does not change the state");
    kv_end!();
}

pub(crate) fn t_p_collect() {
    let mut p = any_parser(any_state(), 1);
    let c = any_char();
    let st = p.state;
    let v = p.params[0].parts[0];
    p.collect(c);
    kv_assert!(p.intermediate == Some(c), "[C03] the intermediate / private marker is remembered as written");
    kv_assert!(p.state == st && p.cur_param == 1 && p.params[0].parts[0] == v, "[C03] collect changes nothing else");
    p.put(c);
    p.osc_put(c);
    kv_assert!(p.intermediate == Some(c) && p.state == st && p.cur_param == 1 && p.params[0].parts[0] == v, "[C20] string payload is dropped without any effect");
    kv_end!();
}

// ------------------------------------------------------------------ P-exec / P-esc / P-csi references

fn ref_exec(c: char) -> Option<Function> {
    use Function::*;
    match c as u32 {
        0x08 => Some(Bs),
        0x09 => Some(Ht),
        0x0a | 0x0b | 0x0c => Some(Lf),
        0x0d => Some(Cr),
        0x0e => Some(So),
        0x0f => Some(Si),
        0x84 => Some(Lf), // IND
        0x85 => Some(Nel),
        0x88 => Some(Hts),
        0x8d => Some(Ri),
        _ => None,
    }
}

fn ref_esc(intermediate: Option<char>, c: char) -> Option<Function> {
    use Function::*;
    match intermediate {
        None => {
            let v = c as u32;
            if (0x40..=0x5f).contains(&v) {
                // 7-bit ESC Fe == its 8-bit C1 counterpart
                ref_exec(unsafe { char::from_u32_unchecked(v + 0x40) })
            } else {
                match c {
                    '7' => Some(Decsc),
                    '8' => Some(Decrc),
                    'c' => Some(Ris),
                    _ => None,
                }
            }
        }
        Some('#') => {
            if c == '8' {
                Some(Decaln)
            } else {
                None
            }
        }
        Some('(') => Some(Gzd4(if c == '0' { Charset::Drawing } else { Charset::Ascii })),
        Some(')') => Some(G1d4(if c == '0' { Charset::Drawing } else { Charset::Ascii })),
        _ => None,
    }
}

/// scalar-parameter CSI functions (everything except SM/RM/DECSET/DECRST/SGR), from the list of
/// implemented functions in the property statement / DESIGN appendix A
fn ref_csi_scalar(intermediate: Option<char>, p0: u16, p1: u16, p2: u16, c: char) -> Option<Function> {
    use Function::*;
    match intermediate {
        None => match c {
            '@' => Some(Ich(p0)),
            'A' => Some(Cuu(p0)),
            'B' => Some(Cud(p0)),
            'C' | 'a' => Some(Cuf(p0)),
            'D' => Some(Cub(p0)),
            'E' => Some(Cnl(p0)),
            'F' => Some(Cpl(p0)),
            'G' | '`' => Some(Cha(p0)),
            'H' | 'f' => Some(Cup(p0, p1)),
            'I' => Some(Cht(p0)),
            'J' => match p0 {
                0 => Some(Ed(EdScope::Below)),
                1 => Some(Ed(EdScope::Above)),
                2 => Some(Ed(EdScope::All)),
                3 => Some(Ed(EdScope::SavedLines)),
                _ => None,
            },
            'K' => match p0 {
                0 => Some(El(ElScope::ToRight)),
                1 => Some(El(ElScope::ToLeft)),
                2 => Some(El(ElScope::All)),
                _ => None,
            },
            'L' => Some(Il(p0)),
            'M' => Some(Dl(p0)),
            'P' => Some(Dch(p0)),
            'S' => Some(Su(p0)),
            'T' => Some(Sd(p0)),
            'W' => match p0 {
                0 => Some(Ctc(CtcOp::Set)),
                2 => Some(Ctc(CtcOp::ClearCurrentColumn)),
                5 => Some(Ctc(CtcOp::ClearAll)),
                _ => None,
            },
            'X' => Some(Ech(p0)),
            'Z' => Some(Cbt(p0)),
            'b' => Some(Rep(p0)),
            'd' => Some(Vpa(p0)),
            'e' => Some(Vpr(p0)),
            'g' => match p0 {
                0 => Some(Tbc(TbcScope::CurrentColumn)),
                3 => Some(Tbc(TbcScope::All)),
                _ => None,
            },
            'r' => Some(Decstbm(p0, p1)),
            's' => Some(Scosc),
            't' => {
                if p0 == 8 {
                    Some(Xtwinops(XtwinopsOp::Resize(p2, p1)))
                } else {
                    None
                }
            }
            'u' => Some(Scorc),
            _ => None,
        },
        Some('!') => {
            if c == 'p' {
                Some(Decstr)
            } else {
                None
            }
        }
        _ => None,
    }
}

fn is_list_final(intermediate: Option<char>, c: char) -> bool {
    (intermediate.is_none() && (c == 'h' || c == 'l' || c == 'm')) || (intermediate == Some('?') && (c == 'h' || c == 'l'))
}

fn ref_ansi_mode(v: u16) -> Option<u16> {
    match v {
        4 | 20 => Some(v),
        _ => None,
    }
}

fn ref_dec_mode(v: u16) -> Option<u16> {
    match v {
        1 | 6 | 7 | 25 | 1047 | 1048 | 1049 => Some(v),
        47 => Some(1047),
        _ => None,
    }
}

fn ansi_code(m: &AnsiMode) -> u16 {
    match m {
        AnsiMode::Insert => 4,
        AnsiMode::NewLine => 20,
    }
}

fn dec_code(m: &DecMode) -> u16 {
    match m {
        DecMode::CursorKeys => 1,
        DecMode::Origin => 6,
        DecMode::AutoWrap => 7,
        DecMode::TextCursorEnable => 25,
        DecMode::AltScreenBuffer => 1047,
        DecMode::SaveCursor => 1048,
        DecMode::SaveCursorAltScreenBuffer => 1049,
    }
}

pub(crate) fn t_p_exec() {
    let mut p = any_parser(any_state(), 0);
    let st = p.state;
    let c = any_char();
    let got = p.execute(c);
    if ref_exec(c).is_none() {
        kv_assert!(got.is_none(), "[C20][C03] unassigned C0/C1 controls are consumed without effect");
    }
    kv_assert!(got == ref_exec(c), "[C03] each C0/C1 control yields its function, unassigned ones nothing");
    kv_assert!(p.state == st, "[C03] executing a control does not change the state by itself");
    kv_cover!(got == Some(Function::Ri), "RI");
    kv_end!();
}

pub(crate) fn t_p_esc() {
    let mut p = any_parser(State::Ground, 0);
    let c = any_char();
    let im = p.intermediate;
    let got = p.esc_dispatch(c);
    let want = ref_esc(im, c);
    if want.is_none() {
        kv_assert!(got.is_none(), "[C20][C03] unimplemented ESC sequences are consumed without effect");
    }
    kv_assert!(got == want, "[C03] each implemented ESC final yields its function");
    kv_assert!(p.state == State::Ground, "[C03][C20] an ESC sequence ends in ground state");
    if im.is_none() && (0x40..=0x5f).contains(&(c as u32)) {
        let c1 = unsafe { char::from_u32_unchecked(c as u32 + 0x40) };
        kv_assert!(got == ref_exec(c1), "[C03] 7-bit ESC Fe acts exactly like its 8-bit C1 counterpart");
    }
    kv_cover!(got == Some(Function::Ris), "RIS");
    kv_cover!(got == Some(Function::Gzd4(Charset::Drawing)), "G0 drawing");
    kv_cover!(got == Some(Function::Decaln), "DECALN");
    kv_end!();
}

/// P-csi (scalar functions): any intermediate, any final, any InvP params
pub(crate) fn t_p_csi_scalar(cur_param: usize) {
    let mut p = any_parser(State::Ground, cur_param);
    let c = any_char();
    let im = p.intermediate;
    assume(!is_list_final(im, c));
    let (p0, p1, p2) = (p.params[0].parts[0], p.params[1].parts[0], p.params[2].parts[0]);
    let got = p.csi_dispatch(c);
    let want = ref_csi_scalar(im, p0, p1, p2, c);
    if want.is_none() {
        kv_assert!(got.is_none(), "[C20][C03] CSI sequences with unimplemented finals, private markers or intermediates are consumed without effect");
    }
    kv_assert!(got == want, "[C03] each implemented CSI final yields its function with the parameters as written");
    kv_assert!(p.state == State::Ground && p.cur_param == cur_param, "[C03][C20] dispatch leaves the parser in ground state");
    kv_cover!(matches!(got, Some(Function::Cup(65535, 0))), "CUP 65535;0");
    kv_cover!(matches!(got, Some(Function::Xtwinops(_))), "XTWINOPS 8");
    kv_cover!(got == Some(Function::Decstr), "DECSTR");
    kv_cover!(got.is_none() && im == Some('?'), "private marker with an unimplemented final");
    kv_cover!(got.is_none() && im == Some('>'), "private marker '>'");
    kv_end!();
}

/// P-csi (mode lists): SM / RM / DECSET / DECRST with cur_param+1 parameters
pub(crate) fn t_p_csi_modes(cur_param: usize, private: bool, set: bool) {
    let mut p = any_parser(State::Ground, cur_param);
    p.intermediate = if private { Some('?') } else { None };
    let c = if set { 'h' } else { 'l' };
    // expected list
    let mut want = [0u16; PARAMS_LEN];
    let mut n = 0usize;
    for i in 0..=cur_param {
        let v = p.params[i].parts[0];
        let m = if private { ref_dec_mode(v) } else { ref_ansi_mode(v) };
        if let Some(code) = m {
            want[n] = code;
            n += 1;
        }
    }
    let got = p.csi_dispatch(c);
    let k = any_usize();
    assume(k < PARAMS_LEN);
    match got {
        Some(Function::Sm(v)) => {
            kv_assert!(!private && set, "[C03] SM is CSI h without marker");
            kv_assert!(v.len() == n, "[C03] every recognised mode parameter is passed on, unknown ones are dropped");
            if k < n {
                kv_assert!(ansi_code(&v[k]) == want[k], "[C03] modes are passed on in the order written");
            }
            std::mem::forget(v);
        }
        Some(Function::Rm(v)) => {
            kv_assert!(!private && !set, "[C03] RM is CSI l without marker");
            kv_assert!(v.len() == n, "[C03] every recognised mode parameter is passed on, unknown ones are dropped");
            if k < n {
                kv_assert!(ansi_code(&v[k]) == want[k], "[C03] modes are passed on in the order written");
            }
            std::mem::forget(v);
        }
        Some(Function::Decset(v)) => {
            kv_assert!(private && set, "[C03] DECSET is CSI ? h");
            kv_assert!(v.len() == n, "[C03] every recognised mode parameter is passed on, unknown ones are dropped");
            if k < n {
                kv_assert!(dec_code(&v[k]) == want[k], "[C03] modes are passed on in the order written");
            }
            std::mem::forget(v);
        }
        Some(Function::Decrst(v)) => {
            kv_assert!(private && !set, "[C03] DECRST is CSI ? l");
            kv_assert!(v.len() == n, "[C03] every recognised mode parameter is passed on, unknown ones are dropped");
            if k < n {
                kv_assert!(dec_code(&v[k]) == want[k], "[C03] modes are passed on in the order written");
            }
            std::mem::forget(v);
        }
        _ => {
            kv_assert!(false, "[C03] CSI h / l always yields a mode function");
        }
    }
    kv_cover!(n == cur_param + 1, "every parameter is a known mode");
    kv_cover!(n == 0, "no parameter is a known mode");
    kv_end!();
}

// ------------------------------------------------------------------ P-sgr

#[derive(PartialEq, Clone, Copy)]
enum SgrRef {
    Op(SgrOp, usize),
    Skip,        // unknown single-valued parameter: consumed alone, no effect
    Unspecified, // ill-formed colour introducer or unlisted sub-parameter form: nothing asserted from here on
}

fn single(p: &Param) -> Option<u16> {
    if p.cur_part == 0 {
        Some(p.parts[0])
    } else {
        None
    }
}

fn ref_color_sub(p: &Param) -> Option<Color> {
    // 38:5:n | 38:2:r:g:b | 38:2::r:g:b   (values must fit a byte to be well-formed)
    let n = p.cur_part + 1;
    if n == 3 && p.parts[1] == 5 {
        if p.parts[2] <= 255 {
            return Some(Color::Indexed(p.parts[2] as u8));
        }
    }
    if n == 5 && p.parts[1] == 2 && p.parts[2] <= 255 && p.parts[3] <= 255 && p.parts[4] <= 255 {
        return Some(Color::rgb(p.parts[2] as u8, p.parts[3] as u8, p.parts[4] as u8));
    }
    if n == 6 && p.parts[1] == 2 && p.parts[3] <= 255 && p.parts[4] <= 255 && p.parts[5] <= 255 {
        return Some(Color::rgb(p.parts[3] as u8, p.parts[4] as u8, p.parts[5] as u8));
    }
    None
}

/// the statement of C08 as a decoder of the parameter at index i
fn ref_sgr_at(ps: &[Param], i: usize) -> SgrRef {
    use SgrOp::*;
    let p = &ps[i];
    if p.cur_part > 0 {
        // sub-parameter forms: only the colour forms are specified
        if p.parts[0] == 38 || p.parts[0] == 48 {
            return match ref_color_sub(p) {
                Some(c) => SgrRef::Op(if p.parts[0] == 38 { SetForegroundColor(c) } else { SetBackgroundColor(c) }, 1),
                None => SgrRef::Unspecified,
            };
        }
        return SgrRef::Unspecified;
    }
    let v = p.parts[0];
    let op = match v {
        0 => Reset,
        1 => SetBoldIntensity,
        2 => SetFaintIntensity,
        3 => SetItalic,
        4 => SetUnderline,
        5 => SetBlink,
        7 => SetInverse,
        9 => SetStrikethrough,
        21 | 22 => ResetIntensity,
        23 => ResetItalic,
        24 => ResetUnderline,
        25 => ResetBlink,
        27 => ResetInverse,
        29 => ResetStrikethrough,
        30..=37 => SetForegroundColor(Color::Indexed((v - 30) as u8)),
        39 => ResetForegroundColor,
        40..=47 => SetBackgroundColor(Color::Indexed((v - 40) as u8)),
        49 => ResetBackgroundColor,
        90..=97 => SetForegroundColor(Color::Indexed((v - 90 + 8) as u8)),
        100..=107 => SetBackgroundColor(Color::Indexed((v - 100 + 8) as u8)),
        38 | 48 => {
            // 38;5;n  |  38;2;r;g;b  with single-valued parameters
            let fg = v == 38;
            let mk = |c: Color| if fg { SetForegroundColor(c) } else { SetBackgroundColor(c) };
            if i + 1 >= ps.len() {
                return SgrRef::Unspecified;
            }
            match single(&ps[i + 1]) {
                Some(5) => {
                    if i + 2 < ps.len() {
                        if let Some(n) = single(&ps[i + 2]) {
                            if n <= 255 {
                                return SgrRef::Op(mk(Color::Indexed(n as u8)), 3);
                            }
                        }
                    }
                    return SgrRef::Unspecified;
                }
                Some(2) => {
                    if i + 4 < ps.len() {
                        if let (Some(r), Some(g), Some(b)) = (single(&ps[i + 2]), single(&ps[i + 3]), single(&ps[i + 4])) {
                            if r <= 255 && g <= 255 && b <= 255 {
                                return SgrRef::Op(mk(Color::rgb(r as u8, g as u8, b as u8)), 5);
                            }
                        }
                    }
                    return SgrRef::Unspecified;
                }
                _ => return SgrRef::Unspecified,
            }
        }
        _ => return SgrRef::Skip,
    };
    SgrRef::Op(op, 1)
}

/// P-sgr (one-step lemma): for any slice of k parameters, `next()` either
///  - returns the operation the statement assigns to the leading parameter(s) and advances past
///    exactly those parameters, or
///  - (leading parameter unknown) behaves exactly like `next()` on the slice without it, or
///  - (empty slice) returns None.
/// By induction on the slice length the decoded sequence is the statement's left-to-right fold
/// input.  Ill-formed colour introducers / unlisted sub-parameter forms: nothing asserted.
pub(crate) fn t_p_sgr(k: usize) {
    t_p_sgr_shape(k, [255; 6])
}

/// same lemma with the number of sub-parameters of each parameter fixed per instance
/// (shape[i] = cur_part of parameter i, 255 = symbolic); values always symbolic
pub(crate) fn t_p_sgr_shape(k: usize, shape: [u8; 6]) {
    let mut arr: [Param; 6] = Default::default();
    for i in 0..k {
        arr[i] = any_param();
        if shape[i] != 255 {
            assume(arr[i].cur_part == shape[i] as usize);
            arr[i].cur_part = shape[i] as usize;
        }
    }
    let ps = &arr[..k];
    let mut it = SgrOps { ps };
    if k == 0 {
        kv_assert!(it.next().is_none(), "[C08] an exhausted SGR list yields nothing more");
        kv_end!();
        return;
    }
    match ref_sgr_at(ps, 0) {
        SgrRef::Unspecified => {}
        SgrRef::Op(op, n) => {
            let got = it.next();
            kv_assert!(got == Some(op), "[C08] SGR parameters decode to the listed attribute / colour operations");
            kv_assert!(it.ps.len() == k - n, "[C08] an SGR operation consumes exactly its own parameters");
            kv_cover!(n == 3, "38;5;n list form");
            kv_cover!(n == 5, "38;2;r;g;b list form");
            kv_cover!(n == 1 && ps[0].cur_part == 5, "38:2::r:g:b sub-parameter form");
            kv_cover!(n == 1 && ps[0].cur_part == 2, "38:5:n sub-parameter form");
        }
        SgrRef::Skip => {
            let mut it2 = SgrOps { ps: &ps[1..] };
            let got = it.next();
            let got2 = it2.next();
            kv_assert!(got == got2, "[C08] an unknown SGR parameter is skipped without disturbing its neighbours");
            kv_assert!(it.ps.len() == it2.ps.len(), "[C08] an unknown SGR parameter is skipped alone");
            kv_cover!(got.is_some(), "operation after an unknown code");
        }
    }
    kv_end!();
}

/// P-sgr (leading-operation lemma, no loop in the harness): a slice of k parameters that starts
/// with `skips` unknown single-valued parameters followed by a well-formed operation: `next()`
/// returns exactly that operation and stops exactly behind its parameters.  The unwind bound is
/// skips + 2, i.e. the solver also shows that the decoder's loop runs at most skips + 1 times here.
pub(crate) fn t_p_sgr_lead(k: usize, skips: usize) {
    let mut arr: [Param; 6] = Default::default();
    if k > 0 {
        arr[0] = any_param();
    }
    if k > 1 {
        arr[1] = any_param();
    }
    if k > 2 {
        arr[2] = any_param();
    }
    if k > 3 {
        arr[3] = any_param();
    }
    if k > 4 {
        arr[4] = any_param();
    }
    if k > 5 {
        arr[5] = any_param();
    }
    let ps = &arr[..k];
    if skips > 0 {
        assume(ref_sgr_at(ps, 0) == SgrRef::Skip);
    }
    if skips > 1 {
        assume(ref_sgr_at(ps, 1) == SgrRef::Skip);
    }
    let lead = ref_sgr_at(ps, skips);
    let mut it = SgrOps { ps };
    if let SgrRef::Op(op, n) = lead {
        let got = it.next();
        kv_assert!(got == Some(op), "[C08] SGR parameters decode to the listed attribute / colour operations, unknown ones are skipped alone");
        kv_assert!(it.ps.len() == k - skips - n, "[C08] an SGR operation consumes exactly its own parameters");
        kv_cover!(n == 3, "38;5;n list form");
        kv_cover!(n == 5, "38;2;r;g;b list form");
        kv_cover!(n == 1 && ps[skips].cur_part == 5, "38:2::r:g:b sub-parameter form");
        kv_cover!(n == 1 && ps[skips].cur_part == 4, "38:2:r:g:b sub-parameter form");
        kv_cover!(n == 1 && ps[skips].cur_part == 2, "38:5:n sub-parameter form");
        kv_cover!(op == SgrOp::Reset, "reset");
        kv_cover!(matches!(op, SgrOp::SetBackgroundColor(Color::Indexed(15))), "bright background 107");
    }
    kv_end!();
}

// ------------------------------------------------------------------ P-mem / P-fe / P-ris

/// P-mem: ESC, CSI (0x9b), DCS (0x90) from any InvP parser leave no stale parameter state
pub(crate) fn t_p_mem(cur_param: usize) {
    let mut p = any_parser(any_state(), cur_param);
    let which = any_u8();
    assume(which < 3);
    let c = match which {
        0 => '\u{1b}',
        1 => '\u{9b}',
        _ => '\u{90}',
    };
    let out = p.feed(c);
    kv_assert!(out.is_none(), "[C03] a sequence introducer causes no function");
    kv_assert!(p.cur_param == 0 && p.intermediate.is_none(), "[C03] dispatch is independent of earlier sequences: count and intermediate are forgotten");
    kv_assert!(params_all_default(&p), "[C03] dispatch is independent of earlier sequences: parameter values are forgotten");
    kv_end!();
}

/// P-fe: ESC followed by 0x40..=0x5f acts exactly like the C1 control 0x80..=0x9f
pub(crate) fn t_p_fe(cur_param: usize) {
    let s = any_state();
    let mut a = any_parser(s, cur_param);
    let mut b = Parser::new();
    b.state = a.state;
    b.cur_param = a.cur_param;
    b.intermediate = a.intermediate;
    for i in 0..=cur_param {
        b.params[i] = a.params[i].clone();
    }
    let v = any_u32();
    assume((0x40..=0x5f).contains(&v));
    let c7 = unsafe { char::from_u32_unchecked(v) };
    let c8 = unsafe { char::from_u32_unchecked(v + 0x40) };
    let o1 = a.feed('\u{1b}');
    let o2 = a.feed(c7);
    let o8 = b.feed(c8);
    kv_assert!(o1.is_none(), "[C03] ESC alone causes no function");
    kv_assert!(o2 == o8, "[C03] 7-bit ESC Fe yields the same function as its 8-bit C1 counterpart");
    kv_assert!(a.state == b.state, "[C03] 7-bit ESC Fe leaves the same state as its 8-bit C1 counterpart");
    if a.state == State::CsiEntry || a.state == State::DcsEntry {
        kv_assert!(a.cur_param == 0 && b.cur_param == 0 && a.intermediate.is_none() && b.intermediate.is_none(), "[C03] both spellings start the sequence with a clean slate");
        kv_assert!(params_all_default(&a) && params_all_default(&b), "[C03] both spellings start the sequence with a clean slate");
    }
    kv_cover!(o2 == Some(Function::Ri), "ESC M == RI");
    kv_cover!(a.state == State::CsiEntry, "ESC [ == CSI");
    kv_cover!(a.state == State::OscString, "ESC ] == OSC");
    kv_end!();
}

/// P-fe at the level of the reference table (composes with P-trans: impl == table, and with
/// t_p_esc: esc_dispatch(None, Fe) == execute(Fe + 0x40))
pub(crate) fn t_p_fe_table() {
    let s = any_state();
    let v = any_u32();
    assume((0x40..=0x5f).contains(&v));
    let c7 = unsafe { char::from_u32_unchecked(v) };
    let c8 = unsafe { char::from_u32_unchecked(v + 0x40) };
    let (s_esc, a_esc) = ref_step(s, '\u{1b}');
    kv_assert!(s_esc == State::Escape && a_esc == Act::Clear, "[C03] ESC enters the escape state from anywhere");
    let (s7, a7) = ref_step(State::Escape, c7);
    let (s8, a8) = ref_step(s, c8);
    kv_assert!(s7 == s8, "[C03] 7-bit ESC Fe leaves the same state as its 8-bit C1 counterpart");
    let same = match (a7, a8) {
        (Act::EscDispatch, Act::Execute) => true,
        // ESC \ dispatches ST, which has no function (ref_exec(0x9c) == None, t_p_esc)
        (Act::EscDispatch, Act::Ignore) => v == 0x5c,
        (Act::Clear, Act::Clear) => true,
        (Act::Ignore, Act::Ignore) => true,
        _ => false,
    };
    kv_assert!(same, "[C03] 7-bit ESC Fe causes the same kind of action as its 8-bit C1 counterpart");
    kv_end!();
}

/// P-ris: ESC c from any parser returns Ris and leaves the parser as new
pub(crate) fn t_p_ris(cur_param: usize) {
    let mut p = any_parser(any_state(), cur_param);
    let o1 = p.feed('\u{1b}');
    let o2 = p.feed('c');
    kv_assert!(o1.is_none() && o2 == Some(Function::Ris), "[C19] ESC c is RIS from every parser state");
    kv_assert!(p.state == State::Ground && p.cur_param == 0 && p.intermediate.is_none(), "[C19] after RIS the parser is in ground state with nothing pending");
    kv_assert!(params_all_default(&p), "[C19] after RIS the parser holds no stale parameter");
    kv_end!();
}

// ------------------------------------------------------------------ P-strings (C20)

fn is_string_state(s: State) -> bool {
    matches!(
        s,
        State::OscString | State::SosPmApcString | State::DcsEntry | State::DcsParam | State::DcsIntermediate | State::DcsPassthrough | State::DcsIgnore
    )
}

/// payload class of C20: printable ASCII, >= U+00A0, C0 other than CAN/SUB/ESC (and BEL for OSC)
fn is_payload(s: State, c: char) -> bool {
    let v = c as u32;
    if v >= 0xa0 {
        return true;
    }
    if (0x20..=0x7f).contains(&v) {
        return true;
    }
    if v < 0x20 {
        if v == 0x18 || v == 0x1a || v == 0x1b {
            return false;
        }
        if v == 0x07 && s == State::OscString {
            return false;
        }
        return true;
    }
    false // C1
}

/// P-strings: inside a control string every payload character yields no function and stays
/// inside the string; ST (0x9c), ESC \ and BEL (OSC) end it in ground state without a function
pub(crate) fn t_p_strings(cur_param: usize) {
    let s = any_state();
    assume(is_string_state(s));
    let mut p = any_parser(s, cur_param);
    let c = any_char();
    if is_payload(s, c) {
        let out = p.feed(c);
        kv_assert!(out.is_none(), "[C20] control-string payload yields no function (nothing is printed or executed)");
        kv_assert!(is_string_state(p.state), "[C20] control-string payload does not end the string");
        kv_cover!(c == '\u{7}' && s == State::DcsPassthrough, "BEL inside DCS is payload");
        kv_cover!(c as u32 >= 0xa0, "non-ASCII payload");
    } else if c == '\u{9c}' {
        let out = p.feed(c);
        kv_assert!(out.is_none() && p.state == State::Ground, "[C20] ST ends the string in ground state without a function");
    } else if c == '\u{7}' {
        // only reachable for OSC
        let out = p.feed(c);
        kv_assert!(out.is_none() && p.state == State::Ground, "[C20] BEL ends an OSC string in ground state without a function");
    } else if c == '\u{1b}' {
        let o1 = p.feed(c);
        let o2 = p.feed('\\');
        kv_assert!(o1.is_none() && o2.is_none() && p.state == State::Ground, "[C20] ESC \\ ends the string in ground state without a function");
    }
    kv_end!();
}

/// the five string kinds are entered by their 7- and 8-bit introducers from any state
pub(crate) fn t_p_string_intro() {
    let mut p = any_parser(any_state(), 0);
    let which = any_u8();
    assume(which < 5);
    let (c8, c7) = match which {
        0 => ('\u{9d}', ']'),
        1 => ('\u{90}', 'P'),
        2 => ('\u{98}', 'X'),
        3 => ('\u{9e}', '^'),
        _ => ('\u{9f}', '_'),
    };
    let want = match which {
        0 => State::OscString,
        1 => State::DcsEntry,
        _ => State::SosPmApcString,
    };
    if any_bool() {
        let o = p.feed(c8);
        kv_assert!(o.is_none() && p.state == want, "[C20] 8-bit string introducer enters the string state");
    } else {
        let o1 = p.feed('\u{1b}');
        let o2 = p.feed(c7);
        kv_assert!(o1.is_none() && o2.is_none() && p.state == want, "[C20] 7-bit string introducer enters the string state");
    }
    kv_end!();
}

/// P-total: Parser::feed from any InvP parser, any state, any char, real helpers: no panic and
/// InvP afterwards (cur_param concrete per instance; csi_dispatch's list building is decided in
/// t_p_csi_* so dispatch finals are excluded here)
pub(crate) fn t_p_total(cur_param: usize) {
    let s = any_state();
    let mut p = any_parser(s, cur_param);
    let c = any_char();
    let (_, act) = ref_step(s, c);
    assume(act != Act::CsiDispatch);
    let out = p.feed(c);
    assert_inv_p(&p, true);
    std::mem::forget(out);
    kv_end!();
}

include!("parser_gen.rs");
