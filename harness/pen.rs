// Child module of src/pen.rs.  PEN-bits (C08).
#![allow(dead_code)]
use super::*;
use crate::kv::*;
use crate::{kv_assert, kv_cover, kv_end};

/// each attribute is one independent bit: set_x / unset_x change exactly is_x, is_x reads exactly
/// that bit; bold / faint are mutually exclusive readings of the intensity; colours are the fields
pub(crate) fn t_pen_bits() {
    let p0 = any_pen();
    let which = any_u8();
    assume(which < 5);
    let set = any_bool();
    let mut p = p0;
    match (which, set) {
        (0, true) => p.set_italic(),
        (0, false) => p.unset_italic(),
        (1, true) => p.set_underline(),
        (1, false) => p.unset_underline(),
        (2, true) => p.set_blink(),
        (2, false) => p.unset_blink(),
        (3, true) => p.set_inverse(),
        (3, false) => p.unset_inverse(),
        (4, true) => p.set_strikethrough(),
        (_, _) => p.unset_strikethrough(),
    }
    let flags = |q: &Pen| [q.is_italic(), q.is_underline(), q.is_blink(), q.is_inverse(), q.is_strikethrough()];
    let (a, b) = (flags(&p0), flags(&p));
    let k = any_usize();
    assume(k < 5);
    if k == which as usize {
        kv_assert!(b[k] == set, "[C08] setting / clearing an attribute is visible through its accessor");
    } else {
        kv_assert!(b[k] == a[k], "[C08] every attribute is independent of the others");
    }
    kv_assert!(p.foreground() == p0.foreground && p.background() == p0.background && p.intensity == p0.intensity, "[C08] attributes do not disturb colours or intensity");
    kv_assert!(p.is_bold() == (p0.intensity == Intensity::Bold) && p.is_faint() == (p0.intensity == Intensity::Faint), "[C08] bold and faint read the intensity");
    kv_assert!(!(p.is_bold() && p.is_faint()), "[C08] bold and faint are mutually exclusive");
    kv_assert!(pen_ok(&p), "[C02] attribute bits stay within the five attributes");
    let d = Pen::default();
    kv_assert!(d.is_default() && !d.is_bold() && !d.is_italic() && d.foreground().is_none() && d.background().is_none(), "[C08] the default pen has no attribute and no colour");
    kv_assert!(p0.is_default() == (p0 == d), "[C08] is_default recognises exactly the default pen");
    kv_cover!(set && !a[which as usize], "an attribute gets set");
    kv_cover!(!set && a[which as usize], "an attribute gets cleared");
    kv_end!();
}

include!("pen_gen.rs");
