// Child module of src/terminal/dirty_lines.rs.  D-dirty (C02 / C15).
#![allow(dead_code)]
use super::*;
use crate::kv::*;
use crate::{kv_assert, kv_cover, kv_end};

pub(crate) fn mk_dirty(len: usize, value: bool) -> DirtyLines {
    let mut v = Vec::with_capacity(len + 2);
    for _ in 0..len {
        v.push(value);
    }
    DirtyLines(v)
}

pub(crate) fn any_dirty(len: usize) -> DirtyLines {
    let mut v = Vec::with_capacity(len + 2);
    for _ in 0..len {
        v.push(any_bool());
    }
    DirtyLines(v)
}

pub(crate) fn dl_len(d: &DirtyLines) -> usize {
    d.0.len()
}
pub(crate) fn dl_get(d: &DirtyLines, i: usize) -> bool {
    d.0[i]
}

/// D-dirty: to_vec() returns exactly the set flags, strictly increasing, all < len; clear() resets
pub(crate) fn t_dirty(len: usize) {
    let mut d = any_dirty(len);
    let v = d.to_vec();
    kv_assert!(v.len() <= len, "[C02] no more changed lines than rows");
    if v.len() >= 1 {
        let j = any_usize();
        assume(j < v.len());
        kv_assert!(v[j] < len, "[C02] changed-line indices are smaller than rows");
        kv_assert!(d.0[v[j]], "[C15] only flagged rows are reported");
        if j + 1 < v.len() {
            kv_assert!(v[j] < v[j + 1], "[C02] changed-line indices are strictly increasing");
        }
    }
    let r = any_usize();
    assume(r < len);
    if d.0[r] {
        let mut found = false;
        for x in v.iter() {
            if *x == r {
                found = true;
            }
        }
        kv_assert!(found, "[C15] every flagged row is reported");
    }
    d.clear();
    kv_assert!(!d.0[r], "[C15] flags are cleared once reported");
    // add / extend / resize keep the length and only set flags
    let a = any_usize();
    assume(a < len);
    d.add(a);
    kv_assert!(d.0[a] && d.0.len() == len, "[C15] add flags exactly that row");
    let lo = any_usize();
    let hi = any_usize();
    assume(lo <= hi && hi <= len);
    d.extend(lo..hi);
    if r >= lo && r < hi {
        kv_assert!(d.0[r], "[C15] extend flags every row of the range");
    } else {
        kv_assert!(d.0[r] == (r == a), "[C15] extend flags only rows of the range");
    }
    kv_cover!(v.len() == len, "all rows changed");
    kv_cover!(v.len() == 0, "no row changed");
    kv_end!();
    std::mem::forget(v);
    std::mem::forget(d);
}

include!("dirty_lines_gen.rs");
