// Child module of src/terminal.rs (sees Terminal's private fields and methods).
// State builder for an arbitrary terminal satisfying InvT, the scalar snapshot / frame checks,
// cell and mark witnesses, and the operation families.
#![allow(dead_code, unused_macros)]
use super::dirty_lines::kverif::*;
use super::*;
use crate::buffer::kverif::*;
use crate::color::Color;
use crate::kv::*;
use crate::tabs::kverif::{any_tabs, tabs_vec};
use crate::{kv_assert, kv_cover, kv_end};

pub(crate) const SYM: usize = usize::MAX;

#[derive(Clone, Copy)]
pub(crate) struct TCfg {
    pub cols: usize,
    pub rows: usize,
    pub sb: usize,            // scrollback lines above the active view
    pub limit: Option<usize>, // Terminal::scrollback_limit (a constant of the instance)
    pub alt: u8,              // 0 primary active, 1 alternate active, 2 symbolic
    pub crow: usize,          // cursor row, SYM = any
    pub ccol: usize,          // cursor col, SYM = any in 0..=cols (cols = wrap pending)
    pub top: usize,           // margins, SYM = any valid pair
    pub bottom: usize,
    pub parked_rows: usize,   // 0: parked buffer blank with the terminal's geometry; n: symbolic parked buffer with n rows
    pub parked_sb: usize,
    pub tabs_k: usize,        // SYM: Tabs::new(cols); k: any G6 set of k stops
    pub fill: Fill,
    pub asrow: usize,         // row of the *other* screen's saved cursor, SYM = any inside that screen
    pub limit_any: bool,      // the configured scrollback limit is Some(any usize) instead of the constant `limit`
    pub big: bool,            // scalar slice: `cols` / `rows` fields symbolic up to 2^31 over 1x1 buffers (cursor arithmetic only)
}

pub(crate) const fn cfg(cols: usize, rows: usize) -> TCfg {
    TCfg {
        cols,
        rows,
        sb: 0,
        limit: None,
        alt: 0,
        crow: SYM,
        ccol: SYM,
        top: SYM,
        bottom: SYM,
        parked_rows: 0,
        parked_sb: 0,
        tabs_k: SYM,
        fill: Fill::Sym,
        asrow: SYM,
        limit_any: false,
        big: false,
    }
}

fn any_charset() -> Charset {
    if any_bool() {
        Charset::Ascii
    } else {
        Charset::Drawing
    }
}

fn any_saved_ctx(cols: usize, rows: usize) -> SavedCtx {
    let c = any_usize();
    let r = any_usize();
    assume(c < cols && r < rows);
    // constructor + field assignments instead of a struct literal: a field added to the struct by
    // a later change of /repo keeps its default here instead of breaking the harness build
    let mut s = SavedCtx::default();
    s.cursor_col = c;
    s.cursor_row = r;
    s.pen = any_pen();
    s.origin_mode = any_bool();
    s.auto_wrap_mode = any_bool();
    s
}

/// an arbitrary terminal satisfying InvT (DESIGN.md section 3.1) within the instance's geometry.
/// Dirty flags start cleared (the state right after `changes()`).
pub(crate) fn mk_terminal(c: &TCfg) -> Terminal {
    let mut t = mk_terminal_small(c);
    if c.big {
        // Scalar slice for the cursor arithmetic: the size *fields*, cursor, margins and saved position
        // range over every screen size up to 2^31 x 2^31 while the buffers stay 1x1.  Sound only for
        // operations that read no buffer, flag or tab stop - any such access by the operation under
        // test would hit the 1x1 buffers and be reported as a panic.
        let cols = any_usize();
        let rows = any_usize();
        assume(cols >= 1 && cols <= (1usize << 31) && rows >= 1 && rows <= (1usize << 31));
        let col = any_usize();
        let row = any_usize();
        assume(col <= cols && row < rows);
        let top = any_usize();
        let bottom = any_usize();
        assume(bottom < rows && (top < bottom || (rows == 1 && top == 0 && bottom == 0)));
        t.cols = cols;
        t.rows = rows;
        t.cursor.col = col;
        t.cursor.row = row;
        t.pending_wrap = col == cols;
        t.top_margin = top;
        t.bottom_margin = bottom;
        let sc = any_usize();
        let sr = any_usize();
        assume(sc < cols && sr < rows);
        t.saved_ctx.cursor_col = sc;
        t.saved_ctx.cursor_row = sr;
    }
    t
}

fn mk_terminal_small(c: &TCfg) -> Terminal {
    let (cols, rows) = (c.cols, c.rows);
    let alt = match c.alt {
        0 => false,
        1 => true,
        _ => any_bool(),
    };
    let cfg_limit = if c.limit_any { Some(any_usize()) } else { c.limit };
    let limit_of = |is_alt_buffer: bool| if is_alt_buffer { Some(0) } else { cfg_limit };
    // active buffer
    let mut buffer = mk_buffer(cols, rows, c.sb, c.limit, false, c.fill);
    b_set_limit(&mut buffer, limit_of(alt));
    let tn = any_bool();
    if let Some((_, hard)) = b_limit(&buffer) {
        assume(c.sb <= hard || tn); // G11
    }
    b_set_trim_needed(&mut buffer, tn);
    // parked buffer
    let mut other = if c.parked_rows == 0 {
        mk_buffer(cols, rows, 0, None, false, Fill::Blank)
    } else {
        mk_buffer(cols, c.parked_rows, c.parked_sb, None, any_bool(), c.fill)
    };
    b_set_limit(&mut other, limit_of(!alt));
    if let Some((_, hard)) = b_limit(&other) {
        assume(c.parked_sb <= hard || b_trim_needed(&other));
    }
    // cursor
    let col = if c.ccol == SYM { any_usize() } else { c.ccol };
    let row = if c.crow == SYM { any_usize() } else { c.crow };
    assume(col <= cols && row < rows);
    // margins (G5)
    let (top, bottom) = if c.top == SYM {
        let t = any_usize();
        let b = any_usize();
        assume(b < rows && (t < b || (rows == 1 && t == 0 && b == 0)));
        (t, b)
    } else {
        (c.top, c.bottom)
    };
    let tabs = if c.tabs_k == SYM { Tabs::new(cols) } else { any_tabs(c.tabs_k, cols) };
    let parked_rows = if c.parked_rows == 0 { rows } else { c.parked_rows };
    let active_charset = any_usize();
    assume(active_charset < 2);
    // start from the real constructor (tiny limit: no up-front reservation) and overwrite the state
    // field by field - see any_saved_ctx for why no struct literal is used
    let mut t = Terminal::new((cols, rows), Some(0));
    t.buffer = buffer;
    t.other_buffer = other;
    t.active_buffer_type = if alt { BufferType::Alternate } else { BufferType::Primary };
    t.scrollback_limit = cfg_limit;
    t.cursor.col = col;
    t.cursor.row = row;
    t.cursor.visible = any_bool();
    t.pen = any_pen();
    t.charsets = [any_charset(), any_charset()];
    t.active_charset = active_charset;
    t.tabs = tabs;
    t.insert_mode = any_bool();
    t.origin_mode = any_bool();
    t.auto_wrap_mode = any_bool();
    t.new_line_mode = any_bool();
    t.cursor_keys_mode = if any_bool() { CursorKeysMode::Application } else { CursorKeysMode::Normal };
    t.pending_wrap = col == cols;
    t.top_margin = top;
    t.bottom_margin = bottom;
    t.saved_ctx = any_saved_ctx(cols, rows);
    t.alternate_saved_ctx = {
        let mut x = any_saved_ctx(cols, parked_rows);
        if c.asrow != SYM {
            x.cursor_row = c.asrow;
        }
        x
    };
    t.dirty_lines = mk_dirty(rows, false);
    t.xtwinops = false;
    t
}

pub(crate) fn forget(t: Terminal) {
    std::mem::forget(t);
}

// ------------------------------------------------------------------ scalar snapshot + frame

#[derive(Clone, Copy, PartialEq)]
pub(crate) struct Ctx {
    col: usize,
    row: usize,
    pen: Pen,
    origin: bool,
    auto_wrap: bool,
}

fn ctx_of(s: &SavedCtx) -> Ctx {
    Ctx {
        col: s.cursor_col,
        row: s.cursor_row,
        pen: s.pen,
        origin: s.origin_mode,
        auto_wrap: s.auto_wrap_mode,
    }
}

#[derive(Clone, Copy)]
pub(crate) struct Snap {
    pub cols: usize,
    pub rows: usize,
    pub col: usize,
    pub row: usize,
    pub visible: bool,
    pub pending_wrap: bool,
    pub pen: Pen,
    pub g0_drawing: bool,
    pub g1_drawing: bool,
    pub active_charset: usize,
    pub insert: bool,
    pub origin: bool,
    pub auto_wrap: bool,
    pub new_line: bool,
    pub app_keys: bool,
    pub top: usize,
    pub bottom: usize,
    pub saved: Ctx,
    pub alt_saved: Ctx,
    pub alt: bool,
    pub len: usize,
    pub other_len: usize,
    pub trim_needed: bool,
    pub other_trim_needed: bool,
    pub other_rows: usize,
    pub tabs_len: usize,
}

pub(crate) fn snap(t: &Terminal) -> Snap {
    Snap {
        cols: t.cols,
        rows: t.rows,
        col: t.cursor.col,
        row: t.cursor.row,
        visible: t.cursor.visible,
        pending_wrap: t.pending_wrap,
        pen: t.pen,
        g0_drawing: t.charsets[0] == Charset::Drawing,
        g1_drawing: t.charsets[1] == Charset::Drawing,
        active_charset: t.active_charset,
        insert: t.insert_mode,
        origin: t.origin_mode,
        auto_wrap: t.auto_wrap_mode,
        new_line: t.new_line_mode,
        app_keys: t.cursor_keys_mode == CursorKeysMode::Application,
        top: t.top_margin,
        bottom: t.bottom_margin,
        saved: ctx_of(&t.saved_ctx),
        alt_saved: ctx_of(&t.alternate_saved_ctx),
        alt: t.active_buffer_type == BufferType::Alternate,
        len: b_len(&t.buffer),
        other_len: b_len(&t.other_buffer),
        trim_needed: b_trim_needed(&t.buffer),
        other_trim_needed: b_trim_needed(&t.other_buffer),
        other_rows: t.other_buffer.rows,
        tabs_len: tabs_vec(&t.tabs).len(),
    }
}

/// which scalar components an operation is allowed to change
#[derive(Clone, Copy, Default)]
pub(crate) struct Allow {
    pub cursor: bool, // col, row, pending_wrap
    pub visible: bool,
    pub pen: bool,
    pub charsets: bool,
    pub modes: bool, // insert, origin, auto_wrap, new_line, app_keys
    pub margins: bool,
    pub saved: bool,
    pub tabs: bool,
    pub len: bool, // lines().len() / trim flag of the active buffer
}

/// witness for "tab stops unchanged"
pub(crate) struct TabWit {
    j: usize,
    v: usize,
}
pub(crate) fn tab_witness(t: &Terminal) -> TabWit {
    let v = tabs_vec(&t.tabs);
    if v.is_empty() {
        return TabWit { j: 0, v: 0 };
    }
    let j = any_usize();
    assume(j < v.len());
    TabWit { j, v: v[j] }
}

/// frame conditions over the scalar state.  "[FR]" asserts belong to whichever property the
/// harness instance is being run for (every property statement ends with "nothing else changes");
/// the specifically tagged ones belong to that property only.
pub(crate) fn frame(pre: &Snap, t: &Terminal, a: &Allow, tw: &TabWit) {
    let s = snap(t);
    kv_assert!(s.cols == pre.cols && s.rows == pre.rows, "[FR][C02] the size changes only by resize");
    if !a.cursor {
        kv_assert!(s.col == pre.col && s.row == pre.row && s.pending_wrap == pre.pending_wrap, "[FR] the cursor does not move");
    }
    if !a.visible {
        kv_assert!(s.visible == pre.visible, "[FR] cursor visibility is unchanged");
    }
    if !a.pen {
        kv_assert!(s.pen == pre.pen, "[FR][C08] the pen is unchanged");
    }
    if !a.charsets {
        kv_assert!(
            s.g0_drawing == pre.g0_drawing && s.g1_drawing == pre.g1_drawing && s.active_charset == pre.active_charset,
            "[FR] character sets are unchanged"
        );
    }
    if !a.modes {
        kv_assert!(
            s.insert == pre.insert && s.origin == pre.origin && s.auto_wrap == pre.auto_wrap && s.new_line == pre.new_line && s.app_keys == pre.app_keys,
            "[FR] modes are unchanged"
        );
    }
    if !a.margins {
        kv_assert!(s.top == pre.top && s.bottom == pre.bottom, "[FR] margins are unchanged");
    }
    if !a.saved {
        kv_assert!(s.saved == pre.saved, "[C17] the saved cursor context of the active screen is untouched");
        kv_assert!(s.alt_saved == pre.alt_saved, "[C17][C16] the saved cursor context of the other screen is untouched");
        kv_assert!(s.alt == pre.alt, "[FR] the active screen does not switch");
    }
    if !a.tabs {
        kv_assert!(s.tabs_len == pre.tabs_len, "[FR] tab stops are unchanged");
        if pre.tabs_len > 0 {
            kv_assert!(tabs_vec(&t.tabs)[tw.j] == tw.v, "[FR] tab stops are unchanged");
        }
    }
    if !a.len {
        kv_assert!(s.len == pre.len, "[FR][C06][C14] no line is added to or removed from lines()");
    }
    kv_assert!(s.other_len == pre.other_len && s.other_rows == pre.other_rows && s.other_trim_needed == pre.other_trim_needed, "[C16][C14] the parked screen keeps its lines");
    kv_assert!(!t.xtwinops, "[FR] XTWINOPS stays disabled");
}

// ------------------------------------------------------------------ InvT after the step (C02)

pub(crate) fn assert_inv(t: &Terminal) {
    kv_assert!(t.cols >= 1 && t.rows >= 1, "[C02][C01] at least one column and one row");
    kv_assert!(t.buffer.cols == t.cols && t.buffer.rows == t.rows, "[C02][C01] the active buffer has the terminal's geometry");
    assert_buffer_inv(&t.buffer);
    assert_buffer_inv(&t.other_buffer);
    kv_assert!(t.cursor.row < t.rows, "[C02][C01] cursor row < rows");
    kv_assert!(t.cursor.col <= t.cols, "[C02][C01] cursor col <= cols");
    kv_assert!(t.pending_wrap == (t.cursor.col == t.cols), "[C02][C01] col == cols exactly in the wrap-pending position");
    kv_assert!(
        t.bottom_margin < t.rows && (t.top_margin < t.bottom_margin || (t.rows == 1 && t.top_margin == 0 && t.bottom_margin == 0)),
        "[C02][C01][C06] margins form a valid region inside the screen"
    );
    kv_assert!(t.saved_ctx.cursor_col < t.cols && t.saved_ctx.cursor_row < t.rows, "[C17][C02][C01] the saved position lies inside the screen");
    kv_assert!(
        t.alternate_saved_ctx.cursor_col < t.other_buffer.cols && t.alternate_saved_ctx.cursor_row < t.other_buffer.rows,
        "[C17][C02][C01] the other screen's saved position lies inside that screen"
    );
    kv_assert!(dl_len(&t.dirty_lines) == t.rows, "[C02][C01] one changed-line flag per row");
    kv_assert!(t.active_charset < 2, "[C02][C01] active charset index is 0 or 1");
    kv_assert!(pen_ok(&t.pen), "[C02][C01] pen attribute bits stay within the five attributes");
    // tabs: strictly increasing inside 1..cols-1
    let v = tabs_vec(&t.tabs);
    if !v.is_empty() {
        let j = any_usize();
        assume(j < v.len());
        kv_assert!(v[j] >= 1 && v[j] < t.cols, "[C02][C01][C18] tab stops lie inside the screen");
        if j + 1 < v.len() {
            kv_assert!(v[j] < v[j + 1], "[C02][C01][C18] tab stops are strictly increasing");
        }
    }
    // limits follow the active screen
    let (act, oth) = if t.active_buffer_type == BufferType::Primary { (t.scrollback_limit, Some(0)) } else { (Some(0), t.scrollback_limit) };
    kv_assert!(b_limit(&t.buffer).map(|l| l.0) == act && b_limit(&t.other_buffer).map(|l| l.0) == oth, "[C13][C01] each screen keeps its own scrollback limit");
}

// ------------------------------------------------------------------ cell / mark witnesses

/// a witness position in the active buffer, chosen before the step, in *post-state* absolute
/// line coordinates (index into lines(), 0 = oldest scrollback line)
#[derive(Clone, Copy)]
pub(crate) struct Wit {
    pub i: usize,
    pub c: usize,
}

pub(crate) fn any_wit(post_len: usize, cols: usize) -> Wit {
    let i = any_usize();
    let c = any_usize();
    assume(i < post_len && c < cols);
    Wit { i, c }
}

pub(crate) fn cell_at(t: &Terminal, i: usize, c: usize) -> Cell {
    b_cell(&t.buffer, i, c)
}
pub(crate) fn mark_at(t: &Terminal, i: usize) -> bool {
    b_wrapped(&t.buffer, i)
}

/// what the specification says about one cell of the post-state
#[derive(Clone, Copy, PartialEq)]
pub(crate) enum Src {
    Same,                // the cell at the same absolute position before the step
    From(usize, usize),  // the cell that was at (abs line, col) before the step
    Blank,               // a blank in the pen current before the step
    Lit(char, Pen),      // a given cell
    Unspec,              // the statement leaves it open: nothing asserted
}

#[derive(Clone, Copy, PartialEq)]
pub(crate) enum MSrc {
    Same,
    From(usize),
    Val(bool),
    Unspec,
}

/// resolved expectation (pre-state values read before the step)
#[derive(Clone, Copy)]
pub(crate) struct Exp {
    cell: Option<Cell>,
    mark: Option<bool>,
    view_before: Option<Cell>, // the cell at the same *view* position before the step (C15)
}

pub(crate) fn resolve(t: &Terminal, w: &Wit, s: Src, m: MSrc, post_len: usize) -> Exp {
    let pen = t.pen;
    let pre_len = b_len(&t.buffer);
    let cell = match s {
        Src::Same => {
            if w.i < pre_len {
                Some(cell_at(t, w.i, w.c))
            } else {
                None
            }
        }
        Src::From(i, c) => Some(cell_at(t, i, c)),
        Src::Blank => Some(Cell::blank(pen)),
        Src::Lit(ch, p) => Some(Cell::new(ch, p)),
        Src::Unspec => None,
    };
    let mark = match m {
        MSrc::Same => {
            if w.i < pre_len {
                Some(mark_at(t, w.i))
            } else {
                None
            }
        }
        MSrc::From(i) => Some(mark_at(t, i)),
        MSrc::Val(b) => Some(b),
        MSrc::Unspec => None,
    };
    // same view position before the step
    let rows = t.rows;
    let view_before = if post_len >= rows && pre_len >= rows && w.i >= post_len - rows {
        let r = w.i - (post_len - rows);
        Some(cell_at(t, pre_len - rows + r, w.c))
    } else {
        None
    };
    Exp { cell, mark, view_before }
}

// recorder stub for Terminal::execute (used only by the Vt-level harness t_vt_none)
pub(crate) static mut EXEC_CALLS: u32 = 0;
impl Terminal {
    pub(crate) fn kv_rec_execute(&mut self, fun: Function) {
        unsafe {
            EXEC_CALLS += 1;
        }
        std::mem::forget(fun);
    }
}

// call recorders for the Vt-level call-structure harness (t_vt_calls)
pub(crate) static mut CALL_LOG: [u8; 6] = [0; 6];
pub(crate) static mut CALL_N: usize = 0;
fn log_call(k: u8) {
    unsafe {
        if CALL_N < 6 {
            CALL_LOG[CALL_N] = k;
        }
        CALL_N += 1;
    }
}
impl Terminal {
    pub(crate) fn kv_log_resize(&mut self, cols: usize, rows: usize) -> bool {
        log_call(1);
        self.cols = cols;
        self.rows = rows;
        true
    }
    pub(crate) fn kv_log_changes(&mut self) -> Vec<usize> {
        log_call(2);
        Vec::new()
    }
    pub(crate) fn kv_log_gc(&mut self) -> Box<dyn Iterator<Item = Line> + '_> {
        log_call(3);
        Box::new(std::iter::empty())
    }
    pub(crate) fn kv_log_execute(&mut self, fun: Function) {
        log_call(4);
        std::mem::forget(fun);
    }
}

pub(crate) fn terminal_trim_pending(t: &Terminal) -> bool {
    b_trim_needed(&t.buffer)
}
pub(crate) fn terminal_set_trim_pending(t: &mut Terminal) {
    b_set_trim_needed(&mut t.buffer, true);
}

pub(crate) fn e_cell(e: &Exp) -> Option<Cell> {
    e.cell
}
pub(crate) fn e_mark(e: &Exp) -> Option<bool> {
    e.mark
}
pub(crate) fn dirty_flag(t: &Terminal, r: usize) -> bool {
    dl_get(&t.dirty_lines, r)
}

// the literal tags of the cell/mark assertions are chosen per family through these macros
macro_rules! check_exp {
    ($t:expr, $w:expr, $e:expr, $cellmsg:literal, $markmsg:literal) => {{
        let post = cell_at($t, $w.i, $w.c);
        if let Some(c) = $e.cell {
            kv_assert!(post == c, $cellmsg);
        }
        if let Some(m) = $e.mark {
            kv_assert!(mark_at($t, $w.i) == m, $markmsg);
        }
        let len = b_len(&$t.buffer);
        if let Some(vb) = $e.view_before {
            if post != vb {
                kv_assert!(dl_get(&$t.dirty_lines, $w.i - (len - $t.rows)), "[C15] a visible row whose cells changed is reported as changed");
            }
        }
    }};
}

// ------------------------------------------------------------------ family: operations that touch no cell

#[derive(Clone, Copy, PartialEq)]
pub(crate) enum NoCellOp {
    Bs,
    Cr,
    Ht,
    Cht,
    Cbt,
    Cuu,
    Cud,
    Cuf,
    Cub,
    Cnl,
    Cpl,
    Cha,
    Cup,
    Vpa,
    Vpr,
    LfOffMargin,
    NelOffMargin,
    RiOffMargin,
    Decstbm,
    OriginSet,
    OriginReset,
    So,
    Si,
    Gzd4,
    G1d4,
    Hts,
    CtcSet,
    CtcClearCol,
    CtcClearAll,
    TbcCol,
    TbcAll,
    Sm,
    Rm,
    DecsetMisc,
    DecrstMisc,
    Ed3,
    XtwinopsOff,
}

fn n1(n: u16) -> usize {
    if n == 0 {
        1
    } else {
        n as usize
    }
}

/// reference: the n-th stop right of col (or the last column), n-th stop left of col (or column 0)
fn ref_tab_fwd(t: &Terminal, col: usize, n: usize) -> usize {
    let mut cnt = 0usize;
    let mut res = t.cols - 1;
    let mut done = false;
    for s in tabs_vec(&t.tabs).iter() {
        if !done && *s > col {
            cnt += 1;
            if cnt == n {
                res = *s;
                done = true;
            }
        }
    }
    res
}
fn ref_tab_back(t: &Terminal, col: usize, n: usize) -> usize {
    // count stops left of col, then pick the n-th from the right
    let v = tabs_vec(&t.tabs);
    let mut left = 0usize;
    for s in v.iter() {
        if *s < col {
            left += 1;
        }
    }
    if n > left {
        0
    } else {
        v[left - n]
    }
}

/// T-cur / T-modes: one operation that must not touch any cell, from any InvT state.
/// Cursor post-conditions are the closed forms of C05; everything else is frame.
pub(crate) fn t_nocell(c: TCfg, op: NoCellOp) {
    let mut t = mk_terminal(&c);
    let pre = snap(&t);
    let tw = tab_witness(&t);
    let len = pre.len;
    let w = any_wit(len, c.cols);
    let e = resolve(&t, &w, Src::Same, MSrc::Same, len);
    let (cols, rows) = (pre.cols, pre.rows);
    let n = any_u16();
    let m = any_u16();
    let k = n1(n);
    let lastc = cols - 1;
    // horizontal distance is measured from the last column when a wrap is pending
    let hcol = if pre.col >= cols { lastc } else { pre.col };
    let (rtop, rbot) = if pre.origin { (pre.top, pre.bottom) } else { (0, rows - 1) };
    let mut allow = Allow::default();
    use NoCellOp::*;
    match op {
        Bs | Cr | Ht | Cht | Cbt | Cuu | Cud | Cuf | Cub | Cnl | Cpl | Cha | Cup | Vpa | Vpr | LfOffMargin | NelOffMargin | RiOffMargin => {
            allow.cursor = true;
        }
        Decstbm => {
            allow.cursor = true;
            allow.margins = true;
        }
        OriginSet | OriginReset => {
            allow.cursor = true;
            allow.modes = true;
        }
        So | Si | Gzd4 | G1d4 => {
            allow.charsets = true;
        }
        Hts | CtcSet | CtcClearCol | CtcClearAll | TbcCol | TbcAll => {
            allow.tabs = true;
        }
        Sm | Rm => {
            allow.modes = true;
        }
        DecsetMisc | DecrstMisc => {
            allow.modes = true;
            allow.visible = true;
        }
        Ed3 | XtwinopsOff => {}
    }
    let probe = any_usize();
    assume(probe <= cols);
    let probe_before = {
        let mut f = false;
        for s in tabs_vec(&t.tabs).iter() {
            if *s == probe {
                f = true;
            }
        }
        f
    };
    let fwd_tab = ref_tab_fwd(&t, pre.col, if op == Ht { 1 } else { k });
    let back_tab = ref_tab_back(&t, pre.col, k);
    let charset_arg = any_charset();
    let charset_arg_drawing = charset_arg == Charset::Drawing;
    let mode_sel = any_u8();
    match op {
        Bs => t.execute(Function::Bs),
        Cr => t.execute(Function::Cr),
        Ht => t.execute(Function::Ht),
        Cht => t.execute(Function::Cht(n)),
        Cbt => t.execute(Function::Cbt(n)),
        Cuu => t.execute(Function::Cuu(n)),
        Cud => t.execute(Function::Cud(n)),
        Cuf => t.execute(Function::Cuf(n)),
        Cub => t.execute(Function::Cub(n)),
        Cnl => t.execute(Function::Cnl(n)),
        Cpl => t.execute(Function::Cpl(n)),
        Cha => t.execute(Function::Cha(n)),
        Cup => t.execute(Function::Cup(n, m)),
        Vpa => t.execute(Function::Vpa(n)),
        Vpr => t.execute(Function::Vpr(n)),
        LfOffMargin => {
            assume(pre.row != pre.bottom);
            t.execute(Function::Lf)
        }
        NelOffMargin => {
            assume(pre.row != pre.bottom);
            t.execute(Function::Nel)
        }
        RiOffMargin => {
            assume(pre.row != pre.top);
            t.execute(Function::Ri)
        }
        Decstbm => t.execute(Function::Decstbm(n, m)),
        OriginSet => {
            let mut v = Vec::with_capacity(1);
            v.push(DecMode::Origin);
            t.execute(Function::Decset(v))
        }
        OriginReset => {
            let mut v = Vec::with_capacity(1);
            v.push(DecMode::Origin);
            t.execute(Function::Decrst(v))
        }
        So => t.execute(Function::So),
        Si => t.execute(Function::Si),
        Gzd4 => t.execute(Function::Gzd4(charset_arg)),
        G1d4 => t.execute(Function::G1d4(charset_arg)),
        Hts => t.execute(Function::Hts),
        CtcSet => t.execute(Function::Ctc(CtcOp::Set)),
        CtcClearCol => t.execute(Function::Ctc(CtcOp::ClearCurrentColumn)),
        CtcClearAll => t.execute(Function::Ctc(CtcOp::ClearAll)),
        TbcCol => t.execute(Function::Tbc(TbcScope::CurrentColumn)),
        TbcAll => t.execute(Function::Tbc(TbcScope::All)),
        Sm | Rm => {
            let mut v = Vec::with_capacity(2);
            v.push(if mode_sel & 1 == 0 { AnsiMode::Insert } else { AnsiMode::NewLine });
            v.push(if mode_sel & 2 == 0 { AnsiMode::Insert } else { AnsiMode::NewLine });
            if op == Sm {
                t.execute(Function::Sm(v))
            } else {
                t.execute(Function::Rm(v))
            }
        }
        DecsetMisc | DecrstMisc => {
            let pick = |b: u8| match b % 3 {
                0 => DecMode::CursorKeys,
                1 => DecMode::AutoWrap,
                _ => DecMode::TextCursorEnable,
            };
            let mut v = Vec::with_capacity(2);
            v.push(pick(mode_sel));
            v.push(pick(mode_sel / 3));
            if op == DecsetMisc {
                t.execute(Function::Decset(v))
            } else {
                t.execute(Function::Decrst(v))
            }
        }
        Ed3 => t.execute(Function::Ed(EdScope::SavedLines)),
        XtwinopsOff => t.execute(Function::Xtwinops(XtwinopsOp::Resize(n, m))),
    }
    let (col, row, pw) = (t.cursor.col, t.cursor.row, t.pending_wrap);
    // ---- C05 closed forms
    let up_to = |from: usize, d: usize| -> usize {
        // upward moves stop at the top margin unless they start above it
        let limit = if from < pre.top { 0 } else { pre.top };
        if from >= limit + d {
            from - d
        } else {
            limit
        }
    };
    let down_to = |from: usize, d: usize| -> usize {
        let limit = if from > pre.bottom { rows - 1 } else { pre.bottom };
        if from + d <= limit {
            from + d
        } else {
            limit
        }
    };
    let vert_col_ok = col < cols && (pre.col >= cols || col == pre.col);
    match op {
        Bs => {
            kv_assert!(row == pre.row && !pw, "[C05] BS stays on its row and drops a pending wrap");
            kv_assert!(col == if hcol >= 1 { hcol - 1 } else { 0 }, "[C05] BS moves one column left and stops at the first column");
        }
        Cr => {
            kv_assert!(col == 0 && row == pre.row && !pw, "[C05] CR moves to the first column of the same row");
        }
        Cuf => {
            kv_assert!(row == pre.row && !pw, "[C05] CUF stays on its row");
            kv_assert!(col == if hcol + k <= lastc { hcol + k } else { lastc }, "[C05] CUF moves n columns right and stops at the last column");
        }
        Cub => {
            kv_assert!(row == pre.row && !pw, "[C05] CUB stays on its row");
            kv_assert!(col == if hcol >= k { hcol - k } else { 0 }, "[C05] CUB moves n columns left and stops at the first column");
        }
        Cuu => {
            kv_assert!(row == up_to(pre.row, k), "[C05] CUU moves n rows up, stopping at the top margin unless it starts above it");
            kv_assert!(vert_col_ok && !pw, "[C05][C02] a vertical move keeps the column and leaves the wrap-pending position");
        }
        Cud | Vpr => {
            kv_assert!(row == down_to(pre.row, k), "[C05] CUD/VPR move n rows down, stopping at the bottom margin unless they start below it");
            kv_assert!(vert_col_ok && !pw, "[C05][C02] a vertical move keeps the column and leaves the wrap-pending position");
        }
        Cnl => {
            kv_assert!(row == down_to(pre.row, k) && col == 0 && !pw, "[C05] CNL moves n rows down to the first column");
        }
        Cpl => {
            kv_assert!(row == up_to(pre.row, k) && col == 0 && !pw, "[C05] CPL moves n rows up to the first column");
        }
        Cha => {
            kv_assert!(row == pre.row && !pw, "[C05] CHA stays on its row");
            kv_assert!(col == if k - 1 <= lastc { k - 1 } else { lastc }, "[C05] CHA places the cursor at the 1-based column, clamped to the screen");
        }
        Vpa => {
            let want = if rtop + (k - 1) <= rbot { rtop + (k - 1) } else { rbot };
            kv_assert!(row == want, "[C05] VPA places the cursor at the 1-based row, clamped to the screen or (origin mode) the region");
            kv_assert!(vert_col_ok && !pw, "[C05][C02] a vertical move keeps the column and leaves the wrap-pending position");
        }
        Cup => {
            let kc = n1(m);
            let want_r = if rtop + (k - 1) <= rbot { rtop + (k - 1) } else { rbot };
            kv_assert!(row == want_r, "[C05] CUP places the cursor at the 1-based row, clamped to the screen or (origin mode) the region");
            kv_assert!(col == if kc - 1 <= lastc { kc - 1 } else { lastc } && !pw, "[C05] CUP places the cursor at the 1-based column, clamped to the screen");
        }
        Ht | Cht => {
            kv_assert!(row == pre.row && !pw, "[C05][C18] HT/CHT stay on the row");
            kv_assert!(col == fwd_tab, "[C05][C18] HT/CHT move to the n-th next tab stop or the last column");
        }
        Cbt => {
            kv_assert!(row == pre.row && !pw, "[C05][C18] CBT stays on the row");
            if !(pre.col >= cols && probe_before && probe == lastc) {
                // a stop in the last column under a wrap-pending cursor is left open
                if pre.col < cols {
                    kv_assert!(col == back_tab, "[C05][C18] CBT moves to the n-th previous tab stop or the first column");
                }
            }
            kv_assert!(col <= hcol, "[C05][C18] CBT never moves right");
        }
        LfOffMargin | NelOffMargin => {
            let want = if pre.row < rows - 1 { pre.row + 1 } else { pre.row };
            kv_assert!(row == want, "[C05] LF/IND/NEL off the bottom margin move down exactly one row (not past the last row)");
            if op == NelOffMargin || pre.new_line {
                kv_assert!(col == 0 && !pw, "[C05] NEL (and LF in new-line mode) return to the first column");
            } else if pre.row < rows - 1 {
                kv_assert!(vert_col_ok && !pw, "[C05][C02] LF keeps the column and leaves the wrap-pending position");
            }
        }
        RiOffMargin => {
            let want = if pre.row > 0 { pre.row - 1 } else { 0 };
            kv_assert!(row == want, "[C05] RI off the top margin moves up exactly one row whatever the origin mode");
            if pre.row > 0 {
                kv_assert!(vert_col_ok && !pw, "[C05][C02] RI keeps the column and leaves the wrap-pending position");
            }
        }
        Decstbm => {
            let tt = n1(n) - 1;
            let bb = (if m == 0 { rows } else { m as usize }) - 1;
            if tt < bb && bb < rows {
                kv_assert!(t.top_margin == tt && t.bottom_margin == bb, "[C06] DECSTBM takes effect for 1 <= top < bottom <= rows");
            } else {
                kv_assert!(t.top_margin == pre.top && t.bottom_margin == pre.bottom, "[C06] an invalid DECSTBM leaves the margins as they were");
            }
            let home = if pre.origin { t.top_margin } else { 0 };
            kv_assert!(col == 0 && row == home && !pw, "[C05] setting margins homes the cursor");
        }
        OriginSet | OriginReset => {
            kv_assert!(t.origin_mode == (op == OriginSet), "[C05] DECOM sets / resets origin mode");
            let home = if op == OriginSet { pre.top } else { 0 };
            kv_assert!(col == 0 && row == home && !pw, "[C05] toggling origin mode homes the cursor");
            kv_assert!(t.insert_mode == pre.insert && t.auto_wrap_mode == pre.auto_wrap && t.new_line_mode == pre.new_line, "[FR] other modes are unchanged");
        }
        So | Si => {
            kv_assert!(t.active_charset == if op == So { 1 } else { 0 }, "[C04] SO / SI select G1 / G0");
            kv_assert!((t.charsets[0] == Charset::Drawing) == pre.g0_drawing && (t.charsets[1] == Charset::Drawing) == pre.g1_drawing, "[FR] designations are unchanged");
        }
        Gzd4 | G1d4 => {
            let (g0, g1) = if op == Gzd4 { (charset_arg_drawing, pre.g1_drawing) } else { (pre.g0_drawing, charset_arg_drawing) };
            kv_assert!((t.charsets[0] == Charset::Drawing) == g0 && (t.charsets[1] == Charset::Drawing) == g1, "[C04] charset designation changes exactly the designated slot");
            kv_assert!(t.active_charset == pre.active_charset, "[FR] the active slot is unchanged");
        }
        Hts | CtcSet | CtcClearCol | TbcCol | CtcClearAll | TbcAll => {
            let mut probe_after = false;
            for s in tabs_vec(&t.tabs).iter() {
                if *s == probe {
                    probe_after = true;
                }
            }
            let want = match op {
                Hts | CtcSet => probe_before || (probe == pre.col && pre.col > 0 && pre.col < cols),
                CtcClearCol | TbcCol => probe_before && probe != pre.col,
                _ => false,
            };
            kv_assert!(probe_after == want, "[C18] HTS/CTC set and TBC/CTC clear exactly the stop at the cursor column, or all stops");
        }
        Sm | Rm => {
            let touches_insert = mode_sel & 1 == 0 || mode_sel & 2 == 0;
            let touches_nl = mode_sel & 1 != 0 || mode_sel & 2 != 0;
            let val = op == Sm;
            kv_assert!(t.insert_mode == if touches_insert { val } else { pre.insert }, "[C04] SM/RM 4 switch insert mode");
            kv_assert!(t.new_line_mode == if touches_nl { val } else { pre.new_line }, "[C05] SM/RM 20 switch new-line mode");
            kv_assert!(t.origin_mode == pre.origin && t.auto_wrap_mode == pre.auto_wrap, "[FR] other modes are unchanged");
        }
        DecsetMisc | DecrstMisc => {
            let val = op == DecsetMisc;
            let (a, b) = (mode_sel % 3, (mode_sel / 3) % 3);
            let has = |x: u8| a == x || b == x;
            kv_assert!((t.cursor_keys_mode == CursorKeysMode::Application) == if has(0) { val } else { pre.app_keys }, "[FR] DECCKM switches exactly the cursor-key mode");
            kv_assert!(t.auto_wrap_mode == if has(1) { val } else { pre.auto_wrap }, "[C04] DECAWM switches exactly auto-wrap");
            kv_assert!(t.cursor.visible == if has(2) { val } else { pre.visible }, "[FR] DECTCEM switches exactly the cursor visibility");
            kv_assert!(t.insert_mode == pre.insert && t.origin_mode == pre.origin && t.new_line_mode == pre.new_line, "[FR] other modes are unchanged");
        }
        Ed3 | XtwinopsOff => {}
    }
    frame(&pre, &t, &allow, &tw);
    check_exp!(&t, &w, e, "[C05][C20][FR] a command that is not an editing command changes no cell", "[FR] a command that is not an editing command changes no soft-wrap mark");
    if op == Ed3 || op == XtwinopsOff {
        kv_assert!(!dl_get(&t.dirty_lines, any_in(0, c.rows - 1)), "[C20] no changed line is reported by an inert sequence");
    }
    if c.big {
        kv_assert!(t.cursor.row < rows && t.cursor.col <= cols && t.pending_wrap == (t.cursor.col == cols), "[C02][C05] the cursor stays inside a screen of any size");
        kv_assert!(t.bottom_margin < rows && (t.top_margin < t.bottom_margin || rows == 1), "[C02][C06] margins stay a valid region on a screen of any size");
        kv_cover!(rows > 100000 && pre.row > 70000 && n == 65535, "a parameter of 65535 on a very tall screen");
    } else {
        assert_inv(&t);
    }
    kv_cover!(pre.col == cols, "wrap-pending start");
    kv_cover!(pre.origin && pre.top > 0, "origin mode with a top margin");
    kv_cover!(pre.row > pre.bottom, "start below the region");
    kv_cover!(pre.row < pre.top, "start above the region");
    kv_cover!(n == 0, "missing / zero parameter");
    kv_cover!(n == 65535, "parameter 65535");
    kv_end!();
    forget(t);
}

// ------------------------------------------------------------------ family: scrolling (C06)

#[derive(Clone, Copy, PartialEq)]
pub(crate) enum ScrollOp {
    Lf,
    Nel,
    Ri,
    Su,
    Sd,
    Il,
    Dl,
}

/// specification of a scroll of the view rows a..=b by k (1 <= k <= b-a+1) for the post-state
/// line with absolute index i: where its cells and its soft-wrap mark come from.
/// `o` / `l`: view offset and line count *before* the step.  Returns (cell source line, mark).
/// Cell sources are per line: None = blank in the current pen, Some(j) = pre line j.
pub(crate) fn scroll_spec(o: usize, l: usize, rows: usize, a: usize, b: usize, k: usize, up: bool, i: usize) -> (Option<usize>, MSrc) {
    if up {
        if a == 0 {
            // rows leave through the top of the screen: lines() grows by k
            if b == rows - 1 {
                if i < l {
                    (Some(i), MSrc::Same)
                } else {
                    (None, MSrc::Val(false))
                }
            } else {
                let ins = o + b + 1;
                if i < ins {
                    (Some(i), if i == o + b { MSrc::Unspec } else { MSrc::Same })
                } else if i < ins + k {
                    (None, MSrc::Val(false))
                } else {
                    (Some(i - k), MSrc::From(i - k))
                }
            }
        } else if i < o + a {
            (Some(i), if i == o + a - 1 { MSrc::Unspec } else { MSrc::Same })
        } else if i + k <= o + b {
            (Some(i + k), if i + k == o + b { MSrc::Unspec } else { MSrc::From(i + k) })
        } else if i <= o + b {
            (None, MSrc::Val(false))
        } else {
            (Some(i), MSrc::Same)
        }
    } else if i < o + a {
        (Some(i), if a > 0 && i == o + a - 1 { MSrc::Unspec } else { MSrc::Same })
    } else if i < o + a + k {
        (None, MSrc::Val(false))
    } else if i <= o + b {
        (Some(i - k), if i == o + b { MSrc::Unspec } else { MSrc::From(i - k) })
    } else {
        (Some(i), MSrc::Same)
    }
}

pub(crate) fn scroll_growth(rows: usize, a: usize, k: usize, up: bool) -> usize {
    let _ = rows;
    if up && a == 0 {
        k
    } else {
        0
    }
}

/// T-scroll: LF/NEL/RI (on or off the margin), SU, SD, IL, DL with the cursor row and the
/// margins constants of the instance; count, column, cells, pens, modes, scrollback symbolic
pub(crate) fn t_scroll(c: TCfg, op: ScrollOp, nfix: u32) {
    let mut t = mk_terminal(&c);
    let pre = snap(&t);
    let tw = tab_witness(&t);
    let (cols, rows) = (c.cols, c.rows);
    let n = if nfix == u32::MAX { any_u16() } else { nfix as u16 };
    let row = pre.row;
    let (top, bottom) = (pre.top, pre.bottom);
    use ScrollOp::*;
    // the range, direction and count the statement assigns to this command in this state
    let ildl_range = if row <= bottom { (row, bottom) } else { (row, rows - 1) };
    let (scrolls, a, b, up, count) = match op {
        Lf | Nel => (row == bottom, top, bottom, true, 1usize),
        Ri => (row == top, top, bottom, false, 1usize),
        Su => (true, top, bottom, true, n1(n)),
        Sd => (true, top, bottom, false, n1(n)),
        Il => (true, ildl_range.0, ildl_range.1, false, n1(n)),
        Dl => (true, ildl_range.0, ildl_range.1, true, n1(n)),
    };
    let height = b - a + 1;
    let k = if count < height { count } else { height };
    let growth = if scrolls { scroll_growth(rows, a, k, up) } else { 0 };
    let post_len = pre.len + growth;
    let o = pre.len - rows;
    let w = any_wit(post_len, cols);
    let (line_src, msrc) = if scrolls { scroll_spec(o, pre.len, rows, a, b, k, up, w.i) } else { (Some(w.i), MSrc::Same) };
    let src = match line_src {
        None => Src::Blank,
        Some(j) => Src::From(j, w.c),
    };
    let e = resolve(&t, &w, src, msrc, post_len);
    match op {
        Lf => t.execute(Function::Lf),
        Nel => t.execute(Function::Nel),
        Ri => t.execute(Function::Ri),
        Su => t.execute(Function::Su(n)),
        Sd => t.execute(Function::Sd(n)),
        Il => t.execute(Function::Il(n)),
        Dl => t.execute(Function::Dl(n)),
    }
    kv_assert!(b_len(&t.buffer) == post_len, "[C06][C14] lines() grows by exactly the rows scrolled off the top of a range that starts at the first row, and by nothing otherwise");
    check_exp!(&t, &w, e, "[C06][C08][C14] scrolling shifts exactly the rows of its range by n, blanks the vacated rows in the current pen and leaves every other line (scrollback included) unchanged", "[C06][C14] scrolling keeps the soft-wrap marks of the lines it moves or leaves alone (scrollback included)");
    // cursor
    let (col, crow, pw) = (t.cursor.col, t.cursor.row, t.pending_wrap);
    match op {
        Su | Sd | Il | Dl => {
            kv_assert!(col == pre.col && crow == pre.row && pw == pre.pending_wrap, "[C06] SU/SD/IL/DL do not move the cursor");
        }
        Lf | Nel => {
            if scrolls {
                kv_assert!(crow == pre.row, "[C06] LF/NEL on the bottom margin scroll instead of moving");
            } else {
                kv_assert!(crow == if pre.row < rows - 1 { pre.row + 1 } else { pre.row }, "[C05] LF/NEL off the bottom margin move down exactly one row");
            }
            if op == Nel || pre.new_line {
                kv_assert!(col == 0 && !pw, "[C05] NEL (and LF in new-line mode) return to the first column");
            } else {
                kv_assert!(col == pre.col || (pre.col == cols && col == cols - 1), "[C05][C02] LF keeps the column and leaves the wrap-pending position");
            }
        }
        Ri => {
            if scrolls {
                kv_assert!(crow == pre.row && col == pre.col, "[C06] RI on the top margin scrolls instead of moving");
            } else {
                kv_assert!(crow == if pre.row > 0 { pre.row - 1 } else { 0 }, "[C05] RI off the top margin moves up exactly one row whatever the origin mode");
            }
        }
    }
    let mut allow = Allow::default();
    allow.cursor = true;
    allow.len = true;
    frame(&pre, &t, &allow, &tw);
    assert_inv(&t);
    kv_cover!(n == 0, "missing / zero count");
    kv_cover!(count > height, "count larger than the range");
    kv_cover!(n == 65535, "count 65535");
    kv_cover!(pre.pen.background.is_some(), "pen with a background colour");
    kv_cover!(pre.col == cols, "wrap-pending column");
    kv_cover!(pre.alt, "alternate screen");
    kv_cover!(!pre.alt, "primary screen");
    kv_end!();
    forget(t);
}

// ------------------------------------------------------------------ family: erase (C07)

#[derive(Clone, Copy, PartialEq)]
pub(crate) enum EraseOp {
    Ed0,
    Ed1,
    Ed2,
    El0,
    El1,
    El2,
    Ech,
}

/// T-erase: ED 0/1/2, EL 0/1/2, ECH n from any InvT state (cursor anywhere incl. wrap pending)
pub(crate) fn t_erase(c: TCfg, op: EraseOp) {
    let mut t = mk_terminal(&c);
    let pre = snap(&t);
    let tw = tab_witness(&t);
    let (cols, rows) = (c.cols, c.rows);
    let n = any_u16();
    let k = n1(n);
    let (col, row) = (pre.col, pre.row);
    let o = pre.len - rows;
    let w = any_wit(pre.len, cols);
    use EraseOp::*;
    let mut src = Src::Same;
    let mut msrc = MSrc::Same;
    if w.i >= o {
        let r = w.i - o;
        let wc = w.c;
        // is (r, wc) inside the extent?  the wrap-pending position is column index `cols`
        let in_extent = match op {
            El0 => r == row && wc >= col,
            El1 => r == row && wc <= col,
            El2 => r == row,
            Ed0 => (r == row && wc >= col) || r > row,
            Ed1 => r < row || (r == row && wc <= col),
            Ed2 => true,
            Ech => r == row && wc >= col && wc - col < k,
        };
        if in_extent {
            src = Src::Blank;
        }
        // soft-wrap mark: cleared when the row's tail is erased; left open where the statement is silent
        msrc = match op {
            El0 => {
                if r == row {
                    if col < cols { MSrc::Val(false) } else { MSrc::Unspec }
                } else {
                    MSrc::Same
                }
            }
            El1 => {
                if r == row { MSrc::Unspec } else { MSrc::Same }
            }
            El2 => {
                if r == row { MSrc::Val(false) } else { MSrc::Same }
            }
            Ed0 => {
                if r > row {
                    MSrc::Val(false)
                } else if r == row {
                    if col < cols { MSrc::Val(false) } else { MSrc::Unspec }
                } else {
                    MSrc::Same
                }
            }
            Ed1 => {
                if r < row {
                    MSrc::Val(false)
                } else if r == row {
                    MSrc::Unspec
                } else {
                    MSrc::Same
                }
            }
            Ed2 => MSrc::Val(false),
            Ech => {
                if r == row {
                    if col >= cols {
                        MSrc::Unspec
                    } else if col + k >= cols {
                        MSrc::Val(false)
                    } else {
                        MSrc::Same
                    }
                } else {
                    MSrc::Same
                }
            }
        };
    }
    let e = resolve(&t, &w, src, msrc, pre.len);
    match op {
        Ed0 => t.execute(Function::Ed(EdScope::Below)),
        Ed1 => t.execute(Function::Ed(EdScope::Above)),
        Ed2 => t.execute(Function::Ed(EdScope::All)),
        El0 => t.execute(Function::El(ElScope::ToRight)),
        El1 => t.execute(Function::El(ElScope::ToLeft)),
        El2 => t.execute(Function::El(ElScope::All)),
        Ech => t.execute(Function::Ech(n)),
    }
    check_exp!(&t, &w, e, "[C07][C08] erasing replaces exactly the cells of its extent by blanks in the current pen and leaves every other cell alone", "[C07] a row stops being soft-wrapped when its tail is erased, and no other mark changes");
    let allow = Allow::default();
    frame(&pre, &t, &allow, &tw);
    assert_inv(&t);
    kv_cover!(col == cols, "wrap-pending column");
    kv_cover!(pre.pen.background.is_some(), "pen with a background colour");
    kv_cover!(src == Src::Blank && w.i >= o && w.i - o != row, "a cell of another row is erased");
    kv_cover!(src == Src::Same && w.i >= o && w.i - o == row, "a cell of the cursor row survives");
    kv_cover!(w.i < o, "a scrollback line is watched");
    kv_end!();
    forget(t);
}

// ------------------------------------------------------------------ family: ICH / DCH / DECALN (C07)

#[derive(Clone, Copy, PartialEq)]
pub(crate) enum EditOp {
    Ich,
    Dch,
    Decaln,
}

pub(crate) fn t_edit(c: TCfg, op: EditOp) {
    let mut t = mk_terminal(&c);
    let pre = snap(&t);
    let tw = tab_witness(&t);
    let (cols, rows) = (c.cols, c.rows);
    let n = any_u16();
    let (col, row) = (pre.col, pre.row);
    let o = pre.len - rows;
    let w = any_wit(pre.len, cols);
    use EditOp::*;
    let mut src = Src::Same;
    let mut msrc = MSrc::Same;
    if w.i >= o {
        let r = w.i - o;
        let wc = w.c;
        match op {
            Ich => {
                let room = cols - col; // 0 at the wrap-pending position
                let k = if n1(n) < room { n1(n) } else { room };
                if r == row {
                    msrc = MSrc::Unspec;
                    if wc >= col {
                        src = if wc - col < k { Src::Blank } else { Src::From(w.i, wc - k) };
                    }
                }
            }
            Dch => {
                let c0 = if col >= cols { cols - 1 } else { col };
                let room = cols - c0;
                let k = if n1(n) < room { n1(n) } else { room };
                if r == row {
                    msrc = MSrc::Val(false);
                    if wc >= c0 {
                        src = if wc + k < cols { Src::From(w.i, wc + k) } else { Src::Blank };
                    }
                }
            }
            Decaln => {
                src = Src::Lit('E', Pen::default());
                msrc = MSrc::Unspec;
            }
        }
    }
    let e = resolve(&t, &w, src, msrc, pre.len);
    match op {
        Ich => t.execute(Function::Ich(n)),
        Dch => t.execute(Function::Dch(n)),
        Decaln => t.execute(Function::Decaln),
    }
    check_exp!(&t, &w, e, "[C07][C08] ICH/DCH shift the rest of the row, blank the vacated cells in the current pen and drop what falls off; DECALN fills the screen with E; nothing else changes", "[C07] a row stops being soft-wrapped when characters are deleted from it, and no other mark changes");
    let mut allow = Allow::default();
    if op == Dch {
        allow.cursor = true;
        let c0 = if col >= cols { cols - 1 } else { col };
        kv_assert!(t.cursor.col == c0 && t.cursor.row == row && !t.pending_wrap, "[C07] DCH leaves the wrap-pending column first and otherwise keeps the cursor");
    }
    frame(&pre, &t, &allow, &tw);
    assert_inv(&t);
    kv_cover!(col == cols, "wrap-pending column");
    kv_cover!(n == 0, "missing / zero count");
    kv_cover!(n == 65535, "count 65535");
    kv_cover!(matches!(src, Src::From(_, _)), "a shifted cell is watched");
    kv_cover!(src == Src::Blank, "a vacated cell is watched");
    kv_end!();
    forget(t);
}

// ------------------------------------------------------------------ family: print (C04)

/// the VT100 special-graphics set, 0x60..=0x7e, as Unicode code points (two entries have two
/// code points in common use for the same glyph: diamond U+25C6/U+2666, centred dot U+00B7/U+22C5)
const GFX: [u32; 31] = [
    0x25c6, 0x2592, 0x2409, 0x240c, 0x240d, 0x240a, 0x00b0, 0x00b1, 0x2424, 0x240b, 0x2518, 0x2510, 0x250c, 0x2514, 0x253c, 0x23ba, 0x23bb, 0x2500, 0x23bc, 0x23bd, 0x251c, 0x2524,
    0x2534, 0x252c, 0x2502, 0x2264, 0x2265, 0x03c0, 0x2260, 0x00a3, 0x00b7,
];

fn glyph_ok(input: char, drawing: bool, got: char) -> bool {
    let v = input as u32;
    if drawing && (0x60..=0x7e).contains(&v) {
        let want = GFX[(v - 0x60) as usize];
        let g = got as u32;
        g == want || (v == 0x60 && g == 0x2666) || (v == 0x7e && g == 0x22c5)
    } else {
        got == input
    }
}

/// CH-charset: Charset::translate for every char
pub(crate) fn t_charset() {
    let ch = any_char();
    let drawing = any_bool();
    let cs = if drawing { Charset::Drawing } else { Charset::Ascii };
    let got = cs.translate(ch);
    kv_assert!(glyph_ok(ch, drawing, got), "[C04] DEC special graphics maps 0x60-0x7E to the VT100 line-drawing glyphs and nothing else");
    kv_cover!(drawing && ch == 'q', "horizontal line");
    kv_end!();
}

/// T-print: Print(ch) with the cursor row and margins constants of the instance
pub(crate) fn t_print(c: TCfg) {
    t_print_or_rep(c, u32::MAX)
}

/// with `rep`: REP with a missing / zero / one count == typing the character left of the cursor once
pub(crate) fn t_print_or_rep(c: TCfg, rep_arg: u32) {
    let rep = rep_arg != u32::MAX;
    let mut t = mk_terminal(&c);
    let pre = snap(&t);
    let tw = tab_witness(&t);
    let (cols, rows) = (c.cols, c.rows);
    let (col, row) = (pre.col, pre.row);
    // the count is a constant of the instance (a symbolic count unrolls `print` once per unwinding)
    let rep_n = if rep { rep_arg as u16 } else { 0 };
    let ch = if rep {
        assume(col > 0);
        cell_at(&t, pre.len - rows + row, col - 1).char()
    } else {
        let ch = any_char();
        assume((ch as u32 >= 0x20 && ch as u32 <= 0x7f) || ch as u32 >= 0xa0);
        ch
    };
    let (top, bottom) = (pre.top, pre.bottom);
    let pw = col == cols;
    let wrap = pre.auto_wrap && pw;
    let drawing = if pre.active_charset == 0 { pre.g0_drawing } else { pre.g1_drawing };
    // phase 1: deferred wrap
    let scrolls = wrap && row == bottom;
    let steps_down = wrap && row != bottom && row < rows - 1;
    let corner = wrap && row != bottom && row == rows - 1; // below the region on the last row: left open
    let growth = if scrolls { scroll_growth(rows, top, 1, true) } else { 0 };
    let post_len = pre.len + growth;
    let o = pre.len - rows;
    let o2 = post_len - rows;
    let col2 = if wrap { 0 } else { col };
    let row2 = if steps_down { row + 1 } else { row };
    // phase 2: the write
    let last = col2 + 1 >= cols;
    let tc = if last { cols - 1 } else { col2 };
    let inserting = !last && pre.insert;
    let w = any_wit(post_len, cols);
    // where does the watched line come from (scroll of the region by one, if any)
    let (line_src, mut msrc) = if scrolls { scroll_spec(o, pre.len, rows, top, bottom, 1, true, w.i) } else { (Some(w.i), MSrc::Same) };
    // the row the cursor left is marked soft-wrapped
    if wrap && !corner {
        if let Some(j) = line_src {
            if j == o + row {
                msrc = MSrc::Val(true);
            }
        }
    }
    let on_target = w.i == o2 + row2;
    let src = if on_target && w.c == tc {
        Src::Unspec // checked separately (translated character, current pen)
    } else {
        let sc = if on_target && inserting && w.c > tc { w.c - 1 } else { w.c };
        match line_src {
            None => Src::Blank,
            Some(j) => Src::From(j, sc),
        }
    };
    let e = resolve(&t, &w, if corner { Src::Unspec } else { src }, if corner { MSrc::Unspec } else { msrc }, post_len);
    if rep {
        t.execute(Function::Rep(rep_n));
    } else {
        t.execute(Function::Print(ch));
    }
    if !corner {
        kv_assert!(b_len(&t.buffer) == post_len, "[C04][C06][C14] printing adds a line only by a wrap-scroll of a region that starts at the first row");
        let tcell = cell_at(&t, o2 + row2, tc);
        kv_assert!(glyph_ok(ch, drawing, tcell.char()), "[C04] the character is written, translated through the active character set, into the cell under the cursor");
        kv_assert!(*tcell.pen() == pre.pen, "[C04][C08] the printed cell carries the current pen");
        kv_assert!(tcell.pen().foreground() == pre.pen.foreground && tcell.pen().background() == pre.pen.background && tcell.pen().is_bold() == (pre.pen.intensity == Intensity::Bold), "[C08] the printed cell reports the pen through its accessors");
        check_exp!(&t, &w, e, "[C04] printing changes no other cell (insert mode shifts the rest of the row right, dropping the last cell)", "[C04] printing marks the row it left by auto-wrap as soft-wrapped and changes no other mark");
        kv_assert!(dl_get(&t.dirty_lines, row2), "[C15] the row printed on is reported as changed");
        // cursor
        if last {
            if pre.auto_wrap {
                kv_assert!(t.cursor.col == cols && t.pending_wrap && t.cursor.row == row2, "[C04] in the last column the cursor parks in the wrap-pending position");
            } else {
                kv_assert!(t.cursor.col == col && t.cursor.row == row && t.pending_wrap == pre.pending_wrap, "[C04] with auto-wrap off the cursor keeps overwriting the last column");
            }
        } else {
            kv_assert!(t.cursor.col == col2 + 1 && t.cursor.row == row2 && !t.pending_wrap, "[C04] the cursor advances one column");
        }
    }
    let mut allow = Allow::default();
    allow.cursor = true;
    allow.len = true;
    frame(&pre, &t, &allow, &tw);
    assert_inv(&t);
    kv_cover!(scrolls, "wrap on the bottom margin scrolls the region");
    kv_cover!(steps_down, "wrap to the next row");
    kv_cover!(pw && !pre.auto_wrap, "wrap pending with auto-wrap switched off");
    kv_cover!(inserting && tc + 1 < cols, "insert mode in the middle of the row");
    kv_cover!(drawing && ch == 'x', "drawing set");
    kv_cover!(ch as u32 > 0xffff, "astral character");
    kv_cover!(last && !pw, "print in the last column");
    kv_end!();
    forget(t);
}

// ------------------------------------------------------------------ family: screen switching (C16, C17)

#[derive(Clone, Copy, PartialEq)]
pub(crate) enum SwitchOp {
    Enter1047,
    Enter1049,
    Leave1047,
    Leave1049,
}

fn one_mode(m: DecMode) -> Vec<DecMode> {
    let mut v = Vec::with_capacity(1);
    v.push(m);
    v
}

/// A-enter / A-leave / R-switch.  `c.alt` is concrete (which screen is active before), the
/// parked screen is symbolic (`c.parked_rows` rows, possibly a stale height).
pub(crate) fn t_switch(c: TCfg, op: SwitchOp) {
    let mut t = mk_terminal(&c);
    let pre = snap(&t);
    let tw = tab_witness(&t);
    let (cols, rows) = (c.cols, c.rows);
    use SwitchOp::*;
    let entering = op == Enter1047 || op == Enter1049;
    let with_cursor = op == Enter1049 || op == Leave1049;
    let switches = entering != pre.alt; // enter from primary, leave from alternate
    let prows = pre.other_rows;
    let plen = pre.other_len;
    // witness inside the parked screen (becomes the view when leaving)
    let pi = any_usize();
    let pc = any_usize();
    assume(pi < plen && pc < cols);
    let parked_cell = b_cell(&t.other_buffer, pi, pc);
    let parked_mark = b_wrapped(&t.other_buffer, pi);
    // witness inside the active screen (becomes the parked one when entering)
    let w = any_wit(pre.len, cols);
    let act_cell = cell_at(&t, w.i, w.c);
    let act_mark = mark_at(&t, w.i);
    let cur_ctx = Ctx {
        col: if pre.col >= cols { cols - 1 } else { pre.col },
        row: pre.row,
        pen: pre.pen,
        origin: pre.origin,
        auto_wrap: pre.auto_wrap,
    };
    match op {
        Enter1047 => t.execute(Function::Decset(one_mode(DecMode::AltScreenBuffer))),
        Enter1049 => t.execute(Function::Decset(one_mode(DecMode::SaveCursorAltScreenBuffer))),
        Leave1047 => t.execute(Function::Decrst(one_mode(DecMode::AltScreenBuffer))),
        Leave1049 => t.execute(Function::Decrst(one_mode(DecMode::SaveCursorAltScreenBuffer))),
    }
    let s = snap(&t);
    kv_assert!(s.alt == entering, "[C16] 47/1047/1049 h select the alternate screen, l the primary screen");
    let clamp = |x: Ctx| Ctx {
        col: if x.col >= cols { cols - 1 } else { x.col },
        row: if x.row >= rows { rows - 1 } else { x.row },
        pen: x.pen,
        origin: x.origin,
        auto_wrap: x.auto_wrap,
    };
    if switches && entering {
        // ---- A-enter
        let saved_primary = if with_cursor { cur_ctx } else { pre.saved };
        kv_assert!(s.alt_saved == saved_primary, "[C17] the primary screen's saved cursor stays with the primary screen (1049 saves the cursor on entry)");
        kv_assert!(s.saved == clamp(pre.alt_saved), "[C17][C02][C01] the alternate screen has its own saved cursor, clamped to the current screen");
        kv_assert!(s.len == rows, "[C13][C16] the alternate screen holds exactly the visible rows");
        let a = any_wit(rows, cols);
        kv_assert!(is_blank_with(&cell_at(&t, a.i, a.c), &pre.pen) && !mark_at(&t, a.i), "[C16] every entry presents a blank alternate screen filled with the current pen");
        // the primary is parked untouched
        kv_assert!(s.other_len == pre.len && s.other_rows == rows && s.other_trim_needed == pre.trim_needed, "[C16] entering the alternate screen parks the primary with all its lines");
        kv_assert!(b_cell(&t.other_buffer, w.i, w.c) == act_cell && b_wrapped(&t.other_buffer, w.i) == act_mark, "[C16] entering the alternate screen leaves the primary's rows and scrollback untouched");
        kv_assert!(s.col == pre.col && s.row == pre.row && s.pending_wrap == pre.pending_wrap, "[C16] entering the alternate screen does not move the cursor");
        kv_assert!(dl_get(&t.dirty_lines, any_in(0, rows - 1)), "[C15] a screen switch reports every row as changed");
    } else if switches && !entering {
        // ---- A-leave (with a possibly stale parked height: R-switch)
        kv_assert!(s.saved == clamp(pre.alt_saved), "[C17][C02][C01] leaving restores the primary screen's own saved cursor context slot, clamped to the current screen");
        kv_assert!(s.alt_saved == pre.saved, "[C17] the alternate screen keeps its own saved cursor");
        // height-only re-synchronisation keeps every surviving line at its absolute index
        let post_len = s.len;
        if pi < post_len {
            kv_assert!(cell_at(&t, pi, pc) == parked_cell, "[C16] on return the primary's lines are exactly what they were (at most cut short below the cursor)");
            if pi + 1 < post_len || prows <= rows {
                kv_assert!(mark_at(&t, pi) == parked_mark, "[C16] on return the primary's soft-wrap marks are what they were");
            }
        }
        if prows == rows {
            kv_assert!(post_len == plen, "[C16] without a resize the primary comes back with all its lines");
        } else if prows < rows {
            kv_assert!(post_len >= plen, "[C16] a taller screen drops no line of the primary");
        } else {
            kv_assert!(post_len <= plen && post_len + (prows - rows) >= plen, "[C16] a shorter screen drops at most the rows that no longer fit, and only from the bottom");
        }
        kv_assert!(s.row < rows && s.col <= cols && s.pending_wrap == (s.col == cols), "[C16][C02][C01] on return all geometry invariants hold: the cursor lies inside the screen");
        kv_assert!(!mark_at(&t, post_len - 1), "[C16][C02] on return the last line is not soft-wrapped");
        if with_cursor {
            let sv = pre.alt_saved;
            kv_assert!(s.pen == sv.pen && s.origin == sv.origin && s.auto_wrap == sv.auto_wrap && !s.pending_wrap, "[C17][C16] 1049 restores the cursor context saved on entry");
            kv_assert!(s.col == sv.col, "[C17][C16] 1049 restores the saved column");
            // same absolute line as at save time
            kv_assert!((post_len - rows) + s.row == (plen - prows) + sv.row, "[C16][C17] 1049 puts the cursor back on the same line of the primary's text, also after a resize");
        } else if prows == rows {
            kv_assert!(s.col == pre.col && s.row == pre.row, "[C16] 47/1047 l leave the cursor where it is");
        }
        kv_assert!(dl_get(&t.dirty_lines, any_in(0, rows - 1)), "[C15] a screen switch reports every row as changed");
    } else {
        // already on the requested screen: only the cursor context part of 1049 acts
        kv_assert!(s.other_len == pre.other_len && b_cell(&t.other_buffer, pi, pc) == parked_cell && b_wrapped(&t.other_buffer, pi) == parked_mark, "[C16] the parked screen is untouched");
        if !entering {
            // (whether a repeated *entry* re-blanks the alternate screen is left open by the statement)
            kv_assert!(s.len == pre.len && cell_at(&t, w.i, w.c) == act_cell && mark_at(&t, w.i) == act_mark, "[C16] re-selecting the primary screen changes no cell of it");
        }
        if op == Enter1049 {
            kv_assert!(s.saved == cur_ctx && s.alt_saved == pre.alt_saved, "[C17] 1049 h saves the cursor of the active screen");
        } else if op == Leave1049 {
            let sv = pre.saved;
            kv_assert!(s.col == sv.col && s.row == sv.row && s.pen == sv.pen && s.origin == sv.origin && s.auto_wrap == sv.auto_wrap && !s.pending_wrap, "[C17] 1049 l restores the saved cursor of the active screen");
        } else {
            kv_assert!(s.saved == pre.saved && s.alt_saved == pre.alt_saved, "[C17] saved cursors are untouched");
        }
    }
    // common frame
    kv_assert!(s.cols == pre.cols && s.rows == pre.rows, "[C02] the size changes only by resize");
    kv_assert!(s.insert == pre.insert && s.new_line == pre.new_line && s.app_keys == pre.app_keys && s.visible == pre.visible, "[FR] other modes are unchanged");
    kv_assert!(s.top == pre.top && s.bottom == pre.bottom, "[FR] margins are unchanged");
    kv_assert!(s.tabs_len == pre.tabs_len && (pre.tabs_len == 0 || tabs_vec(&t.tabs)[tw.j] == tw.v), "[FR] tab stops are unchanged");
    assert_inv(&t);
    kv_cover!(pre.col == cols, "wrap-pending column");
    kv_cover!(pre.pen.background.is_some(), "pen with a background colour");
    kv_end!();
    forget(t);
}

// ------------------------------------------------------------------ family: save / restore cursor, soft reset (C17)

#[derive(Clone, Copy, PartialEq)]
pub(crate) enum CtxOp {
    Decsc,
    Scosc,
    Save1048,
    Decrc,
    Scorc,
    Restore1048,
    Decstr,
}

pub(crate) fn t_ctx(c: TCfg, op: CtxOp) {
    let mut t = mk_terminal(&c);
    let pre = snap(&t);
    let tw = tab_witness(&t);
    let cols = c.cols;
    let w = any_wit(pre.len, cols);
    let e = resolve(&t, &w, Src::Same, MSrc::Same, pre.len);
    use CtxOp::*;
    match op {
        Decsc => t.execute(Function::Decsc),
        Scosc => t.execute(Function::Scosc),
        Save1048 => t.execute(Function::Decset(one_mode(DecMode::SaveCursor))),
        Decrc => t.execute(Function::Decrc),
        Scorc => t.execute(Function::Scorc),
        Restore1048 => t.execute(Function::Decrst(one_mode(DecMode::SaveCursor))),
        Decstr => t.execute(Function::Decstr),
    }
    let s = snap(&t);
    let mut allow = Allow::default();
    allow.saved = true;
    match op {
        Decsc | Scosc | Save1048 => {
            let want = Ctx {
                col: if pre.col >= cols { cols - 1 } else { pre.col },
                row: pre.row,
                pen: pre.pen,
                origin: pre.origin,
                auto_wrap: pre.auto_wrap,
            };
            kv_assert!(s.saved == want, "[C17] saving records exactly the column, row, pen, origin mode and auto-wrap mode in force");
            kv_assert!(s.alt_saved == pre.alt_saved && s.alt == pre.alt, "[C17] saving touches only the active screen's saved context");
        }
        Decrc | Scorc | Restore1048 => {
            let sv = pre.saved;
            kv_assert!(s.col == sv.col && s.row == sv.row && !s.pending_wrap, "[C17] restoring re-establishes the saved position");
            kv_assert!(s.pen == sv.pen && s.origin == sv.origin && s.auto_wrap == sv.auto_wrap, "[C17] restoring re-establishes the saved pen, origin mode and auto-wrap mode");
            kv_assert!(s.saved == pre.saved && s.alt_saved == pre.alt_saved && s.alt == pre.alt, "[C17] restoring keeps both saved contexts");
            kv_assert!(s.insert == pre.insert && s.new_line == pre.new_line && s.app_keys == pre.app_keys, "[FR] other modes are unchanged");
            allow.cursor = true;
            allow.pen = true;
            allow.modes = true;
        }
        Decstr => {
            let d = ctx_of(&SavedCtx::default());
            kv_assert!(s.saved == d, "[C17] soft reset empties the active screen's saved context (restoring then gives the power-on defaults)");
            kv_assert!(s.alt_saved == pre.alt_saved && s.alt == pre.alt, "[C17][C16] soft reset leaves the other screen's saved context alone");
            // which modes a soft reset restores is not part of any property: not asserted
            allow.cursor = true;
            allow.visible = true;
            allow.margins = true;
            allow.modes = true;
            allow.pen = true;
            allow.charsets = true;
        }
    }
    frame(&pre, &t, &allow, &tw);
    check_exp!(&t, &w, e, "[FR] saving / restoring the cursor changes no cell", "[FR] saving / restoring the cursor changes no soft-wrap mark");
    assert_inv(&t);
    kv_cover!(pre.col == cols, "wrap-pending column");
    kv_cover!(pre.alt, "alternate screen");
    kv_cover!(!pre.alt, "primary screen");
    kv_end!();
    forget(t);
}

// ------------------------------------------------------------------ RIS (C19)

/// X-ris: from any InvT state execute(Ris) gives, field by field, Terminal::new((cols, rows), limit)
pub(crate) fn t_ris(c: TCfg) {
    let mut t = mk_terminal(&c);
    let (cols, rows) = (c.cols, c.rows);
    let pre = snap(&t);
    let configured = t.scrollback_limit;
    t.execute(Function::Ris);
    let f = Terminal::new((cols, rows), configured);
    let s = snap(&t);
    let g = snap(&f);
    kv_assert!(s.cols == g.cols && s.rows == g.rows, "[C19] RIS keeps the current size");
    kv_assert!(s.col == 0 && s.row == 0 && s.visible && !s.pending_wrap, "[C19] after RIS the cursor is home and visible");
    kv_assert!(s.pen == Pen::default(), "[C19] after RIS the pen is the default pen");
    kv_assert!(!s.g0_drawing && !s.g1_drawing && s.active_charset == 0, "[C19] after RIS the character sets are the defaults");
    kv_assert!(!s.insert && !s.origin && s.auto_wrap && !s.new_line, "[C19] after RIS all modes are reset");
    kv_assert!(!s.app_keys, "[C19] after RIS the cursor-key mode is reset");
    kv_assert!(s.top == 0 && s.bottom == rows - 1, "[C19] after RIS the margins span the full screen");
    let d = ctx_of(&SavedCtx::default());
    kv_assert!(s.saved == d && s.alt_saved == d, "[C19][C17] after RIS both screens' saved contexts are the power-on defaults (nothing saved)");
    kv_assert!(!s.alt, "[C19] after RIS the primary screen is showing");
    kv_assert!(s.len == rows && s.other_len == rows && s.other_rows == rows, "[C19] after RIS the scrollback is empty and both screens have the current size");
    kv_assert!(!s.trim_needed && !s.other_trim_needed, "[C19] after RIS nothing is pending for trimming");
    let w = any_wit(rows, cols);
    kv_assert!(cell_at(&t, w.i, w.c) == Cell::default() && !mark_at(&t, w.i), "[C19] after RIS the primary screen is blank");
    kv_assert!(b_cell(&t.other_buffer, w.i, w.c) == Cell::default() && !b_wrapped(&t.other_buffer, w.i), "[C19] after RIS the alternate screen is blank");
    kv_assert!(b_limit(&t.buffer) == b_limit(&f.buffer) && b_limit(&t.other_buffer) == b_limit(&f.other_buffer), "[C19] after RIS the scrollback configuration is that of a fresh terminal");
    // tabs == Tabs::new(cols)
    let tv = tabs_vec(&t.tabs);
    let fv = tabs_vec(&f.tabs);
    kv_assert!(tv.len() == fv.len(), "[C19] after RIS the tab stops are the defaults");
    if !fv.is_empty() {
        let j = any_in(0, fv.len() - 1);
        kv_assert!(tv[j] == fv[j], "[C19] after RIS the tab stops are the defaults");
    }
    let r = any_in(0, rows - 1);
    kv_assert!(dl_get(&t.dirty_lines, r) && dl_get(&f.dirty_lines, r), "[C19][C15] after RIS every row is reported as changed, as for a fresh terminal");
    kv_assert!(dl_len(&t.dirty_lines) == rows, "[C02] one changed-line flag per row");
    kv_assert!(!t.xtwinops, "[C19] XTWINOPS stays disabled");
    assert_inv(&t);
    kv_cover!(pre.alt, "RIS from the alternate screen");
    kv_cover!(pre.app_keys, "RIS with application cursor keys");
    kv_cover!(pre.other_rows != rows, "RIS with a stale parked screen");
    kv_end!();
    forget(t);
    forget(f);
}

// ------------------------------------------------------------------ resize, height only (C02, C10, C13, C16, C17)

/// R-rows: Terminal::resize(cols, new_rows) with the width unchanged; old/new height and the
/// cursor row are constants of the instance
pub(crate) fn t_resize_rows(c: TCfg, new_rows: usize) {
    let mut t = mk_terminal(&c);
    let pre = snap(&t);
    let tw = tab_witness(&t);
    let (cols, rows) = (c.cols, c.rows);
    let row = pre.row;
    let l = pre.len;
    // specification of a height-only resize
    let (post_len, row2) = if new_rows < rows {
        let delta = rows - new_rows;
        let below = rows - 1 - row;
        let excess = if delta < below { delta } else { below };
        (l - excess, row - (delta - excess))
    } else {
        let delta = new_rows - rows;
        let sb = l - rows;
        let shift = if sb < delta { sb } else { delta };
        (l + delta - shift, row + shift)
    };
    let w = any_wit(post_len, cols);
    let src = if w.i < l { Src::Same } else { Src::Lit(' ', Pen::default()) };
    let msrc = if w.i + 1 == post_len { MSrc::Val(false) } else if w.i < l { MSrc::Same } else { MSrc::Val(false) };
    let e = resolve(&t, &w, src, msrc, post_len);
    // parked screen witness
    let pi = any_usize();
    let pc = any_usize();
    assume(pi < pre.other_len && pc < cols);
    let parked_cell = b_cell(&t.other_buffer, pi, pc);
    let resized = t.resize(cols, new_rows);
    let s = snap(&t);
    kv_assert!(resized == (new_rows != rows), "[C02] resize reports whether the size changed");
    kv_assert!(s.cols == cols && s.rows == new_rows, "[C02] size() reports the geometry last requested");
    kv_assert!(s.len == post_len, "[C10] a height change drops only rows below the cursor and adds only blank rows at the bottom");
    let post = cell_at(&t, w.i, w.c);
    if let Some(x) = e.cell {
        kv_assert!(post == x, "[C10] a height change alters no line: every surviving line keeps its content and its place in lines()");
    }
    if let Some(m) = e.mark {
        kv_assert!(mark_at(&t, w.i) == m, "[C10] a height change keeps the soft-wrap marks (the new last line is never marked)");
    }
    kv_assert!((post_len - new_rows) + s.row == (l - rows) + row, "[C10] the cursor stays on the same line of the text");
    kv_assert!(s.row == row2 && s.col == pre.col && s.pending_wrap == pre.pending_wrap, "[C10] the cursor keeps its column across a height change");
    if new_rows != rows {
        kv_assert!(s.top == 0 && s.bottom == new_rows - 1, "[C05][C06] a height change resets the scroll region to the full screen");
        kv_assert!(dl_get(&t.dirty_lines, any_in(0, new_rows - 1)), "[C15] a resize reports every row as changed");
    } else {
        kv_assert!(s.top == pre.top && s.bottom == pre.bottom, "[C05][C06] an unchanged height keeps the scroll region");
    }
    let want_saved = Ctx {
        col: pre.saved.col,
        row: if pre.saved.row >= new_rows { new_rows - 1 } else { pre.saved.row },
        pen: pre.saved.pen,
        origin: pre.saved.origin,
        auto_wrap: pre.saved.auto_wrap,
    };
    kv_assert!(s.saved == want_saved, "[C17] after a resize the saved position still lies inside the screen and is otherwise untouched");
    kv_assert!(s.alt_saved == pre.alt_saved && s.alt == pre.alt, "[C17][C16] the other screen's saved context is untouched by a resize");
    kv_assert!(s.other_len == pre.other_len && s.other_rows == pre.other_rows && b_cell(&t.other_buffer, pi, pc) == parked_cell, "[C16] a resize does not touch the parked screen");
    kv_assert!(s.pen == pre.pen && s.insert == pre.insert && s.origin == pre.origin && s.auto_wrap == pre.auto_wrap && s.new_line == pre.new_line && s.app_keys == pre.app_keys && s.visible == pre.visible, "[FR] a resize changes no mode and no pen");
    kv_assert!(s.tabs_len == pre.tabs_len && (pre.tabs_len == 0 || tabs_vec(&t.tabs)[tw.j] == tw.v), "[C18] a height change keeps the tab stops");
    assert_inv(&t);
    kv_cover!(pre.col == cols, "wrap-pending column");
    kv_cover!(pre.alt, "alternate screen");
    kv_end!();
    forget(t);
}

/// S-clamp-width / T-tab-glue: Terminal::resize with a *width* change, Buffer::resize replaced by
/// its contract (kv_resize_contract); asserts only what Terminal::resize / reflow do around it
pub(crate) fn t_resize_glue(c: TCfg, new_cols: usize, new_rows: usize) {
    let mut t = mk_terminal(&c);
    let pre = snap(&t);
    let (cols, rows) = (c.cols, c.rows);
    let probe = any_in(0, if new_cols > cols { new_cols } else { cols });
    let mut probe_before = false;
    for s in tabs_vec(&t.tabs).iter() {
        if *s == probe {
            probe_before = true;
        }
    }
    let resized = t.resize(new_cols, new_rows);
    let s = snap(&t);
    kv_assert!(resized == (new_cols != cols || new_rows != rows), "[C02] resize reports whether the size changed");
    kv_assert!(s.cols == new_cols && s.rows == new_rows, "[C02] size() reports the geometry last requested");
    kv_assert!(s.col < new_cols && s.row < new_rows && (new_cols == cols || !s.pending_wrap), "[C02] after a width change the cursor lies inside the screen with no wrap pending");
    let mut probe_after = false;
    for x in tabs_vec(&t.tabs).iter() {
        if *x == probe {
            probe_after = true;
        }
    }
    let want = if probe < cols && probe < new_cols {
        probe_before
    } else if probe >= cols && probe < new_cols {
        probe % 8 == 0
    } else {
        false
    };
    kv_assert!(probe_after == want, "[C18] narrowing discards the stops of the lost columns, widening adds the default stops of the new columns and keeps every surviving stop");
    if new_rows == rows {
        kv_assert!(s.top == pre.top && s.bottom == pre.bottom, "[C05][C06] a width-only change keeps the scroll region");
    } else {
        kv_assert!(s.top == 0 && s.bottom == new_rows - 1, "[C05][C06] a height change resets the scroll region to the full screen");
    }
    kv_assert!(s.saved.col == if pre.saved.col >= new_cols { new_cols - 1 } else { pre.saved.col }, "[C17] after a resize the saved column still lies inside the screen");
    kv_assert!(s.saved.row == if pre.saved.row >= new_rows { new_rows - 1 } else { pre.saved.row }, "[C17] after a resize the saved row still lies inside the screen");
    kv_assert!(s.saved.pen == pre.saved.pen && s.saved.origin == pre.saved.origin && s.saved.auto_wrap == pre.saved.auto_wrap && s.alt_saved == pre.alt_saved, "[C17] a resize changes nothing else of the saved contexts");
    kv_assert!(dl_len(&t.dirty_lines) == new_rows && dl_get(&t.dirty_lines, any_in(0, new_rows - 1)), "[C15][C02] a resize reports every row of the new screen as changed");
    kv_cover!(pre.col == cols, "wrap-pending column before the resize");
    kv_end!();
    forget(t);
}

// ------------------------------------------------------------------ changes() + gc() (C12, C13, C14)

/// Terminal::changes(): returns exactly the flagged rows, strictly increasing, and clears them;
/// nothing else changes
pub(crate) fn t_changes(c: TCfg) {
    let mut t = mk_terminal(&c);
    let rows = c.rows;
    t.dirty_lines = any_dirty(rows);
    let pre = snap(&t);
    let tw = tab_witness(&t);
    let w = any_wit(pre.len, c.cols);
    let e = resolve(&t, &w, Src::Same, MSrc::Same, pre.len);
    let r = any_in(0, rows - 1);
    let was_dirty = dl_get(&t.dirty_lines, r);
    let ch = t.changes();
    let mut reported = false;
    for x in ch.iter() {
        if *x == r {
            reported = true;
        }
        kv_assert!(*x < rows, "[C02] changed-line indices are smaller than rows");
    }
    if ch.len() >= 2 {
        let j = any_in(0, ch.len() - 2);
        kv_assert!(ch[j] < ch[j + 1], "[C02] changed-line indices are strictly increasing");
    }
    kv_assert!(reported == was_dirty, "[C15][C12] changes() reports exactly the flagged rows (nothing that depends on where the call falls)");
    kv_assert!(!dl_get(&t.dirty_lines, r), "[C15] changes() clears the flags");
    std::mem::forget(ch);
    let allow = Allow::default();
    frame(&pre, &t, &allow, &tw);
    let post = cell_at(&t, w.i, w.c);
    kv_assert!(Some(post) == e.cell && Some(mark_at(&t, w.i)) == e.mark, "[C12] reading the changed lines changes no cell");
    assert_inv(&t);
    kv_end!();
    forget(t);
}

/// V-gc: `gc()` (with `changes()`, decided by t_changes, this is what ends every feed_str / resize call) (what ends every feed_str / resize call), the returned
/// iterator drained or dropped; sb / limit / active screen are constants of the instance
pub(crate) fn t_gc(c: TCfg, drain: bool, tn: bool) {
    let mut t = mk_terminal(&c);
    // the pending-trim flag is a constant of the instance (G11: it is set whenever the bound is exceeded)
    if let Some((_, hard)) = b_limit(&t.buffer) {
        assume(tn || c.sb <= hard);
    }
    b_set_trim_needed(&mut t.buffer, tn);
    let rows = c.rows;
    let cols = c.cols;
    let pre = snap(&t);
    let tw = tab_witness(&t);
    let sb = pre.len - rows;
    let lim = b_limit(&t.buffer);
    let excess = match lim {
        Some((soft, hard)) => {
            if pre.trim_needed && sb > hard {
                sb - soft
            } else {
                0
            }
        }
        None => 0,
    };
    let post_len = pre.len - excess;
    let w = any_wit(post_len, cols);
    let kept = cell_at(&t, w.i + excess, w.c);
    let kept_mark = mark_at(&t, w.i + excess);
    // witness among the lines handed out
    let j = any_usize();
    let jc = any_usize();
    assume(jc < cols && (excess == 0 || j < excess));
    let (out_cell, out_mark) = if excess > 0 { (cell_at(&t, j, jc), mark_at(&t, j)) } else { (Cell::default(), false) };
    let mut yielded = 0usize;
    {
        let it = t.gc();
        if drain {
            for line in it {
                if yielded == j && excess > 0 {
                    kv_assert!(line.cells[jc] == out_cell && line.wrapped == out_mark, "[C14] scrolled-off lines are handed out unchanged and in order");
                }
                yielded += 1;
                std::mem::forget(line);
            }
        } else {
            drop(it);
        }
    }
    if drain {
        kv_assert!(yielded == if pre.alt { 0 } else { excess }, "[C14] exactly the lines removed from the primary's scrollback are handed out, none while the alternate screen shows");
    }
    let s = snap(&t);
    kv_assert!(s.len == post_len, "[C14][C13] trimming removes exactly the oldest lines beyond the soft limit, whether or not the iterator is consumed");
    kv_assert!(cell_at(&t, w.i, w.c) == kept && mark_at(&t, w.i) == kept_mark, "[C14][C12] lines that stay keep their content and order");
    if let Some((soft, hard)) = lim {
        kv_assert!(s.len - rows <= hard, "[C13] after the call lines() holds at most rows + L + L/10 lines");
        if soft == 0 {
            kv_assert!(s.len == rows, "[C13] with limit 0 (and on the alternate screen) lines() is exactly the visible rows");
        }
    } else {
        kv_assert!(s.len == pre.len, "[C12] with unlimited scrollback gc removes nothing");
    }
    let mut allow = Allow::default();
    allow.len = true;
    frame(&pre, &t, &allow, &tw);
    assert_inv(&t);
    kv_cover!(excess > 0, "something is trimmed");
    kv_cover!(excess == 0, "nothing is trimmed");
    kv_end!();
    forget(t);
}

// ------------------------------------------------------------------ T-base (C02) and T-sgr (C08)

/// T-base: Terminal::new((cols, rows), Some(limit)) satisfies InvT and is blank
pub(crate) fn t_base(cols: usize, rows: usize, limit: usize) {
    let t = Terminal::new((cols, rows), Some(limit));
    assert_inv(&t);
    let s = snap(&t);
    kv_assert!(s.len == rows && s.other_len == rows && !s.alt && s.col == 0 && s.row == 0 && s.visible && !s.pending_wrap, "[C02][C19] a fresh terminal shows a blank primary screen with the cursor home");
    kv_assert!(s.top == 0 && s.bottom == rows - 1 && s.auto_wrap && !s.insert && !s.origin && !s.new_line && !s.app_keys, "[C19] a fresh terminal has default modes and full-screen margins");
    let w = any_wit(rows, cols);
    kv_assert!(cell_at(&t, w.i, w.c) == Cell::default() && !mark_at(&t, w.i), "[C19] a fresh terminal is blank");
    kv_assert!(dl_get(&t.dirty_lines, any_in(0, rows - 1)), "[C15] a fresh terminal reports every row as changed");
    kv_assert!(b_limit(&t.buffer) == Some((limit, limit + limit / 10)) && b_limit(&t.other_buffer) == Some((0, 0)), "[C13] the primary gets the configured limit (+10% slack), the alternate screen none");
    kv_end!();
    forget(t);
}

/// T-base with unlimited scrollback
pub(crate) fn t_base_unlimited(cols: usize, rows: usize) {
    let t = Terminal::new((cols, rows), None);
    assert_inv(&t);
    let s = snap(&t);
    kv_assert!(s.len == rows && s.other_len == rows && !s.alt, "[C02][C19] a fresh terminal shows a blank primary screen");
    kv_assert!(b_limit(&t.buffer).is_none() && b_limit(&t.other_buffer) == Some((0, 0)), "[C13] unlimited primary, no scrollback on the alternate screen");
    kv_end!();
    forget(t);
}

/// T-base for ANY scrollback limit
pub(crate) fn t_base_any(cols: usize, rows: usize) {
    let limit = any_usize();
    let t = Terminal::new((cols, rows), Some(limit));
    assert_inv(&t);
    let s = snap(&t);
    kv_assert!(s.len == rows && s.other_len == rows && !s.alt && s.col == 0 && s.row == 0, "[C02][C19] a fresh terminal shows a blank primary screen with the cursor home");
    kv_assert!(b_limit(&t.buffer).map(|l| l.0) == Some(limit) && b_limit(&t.other_buffer) == Some((0, 0)), "[C13] the primary gets the configured limit, the alternate screen none");
    kv_cover!(limit > (1usize << 62), "huge limit");
    kv_end!();
    forget(t);
}

fn any_sgr_op() -> SgrOp {
    use SgrOp::*;
    let k = any_u8();
    assume(k < 18);
    match k {
        0 => Reset,
        1 => SetBoldIntensity,
        2 => SetFaintIntensity,
        3 => SetItalic,
        4 => SetUnderline,
        5 => SetBlink,
        6 => SetInverse,
        7 => SetStrikethrough,
        8 => ResetIntensity,
        9 => ResetItalic,
        10 => ResetUnderline,
        11 => ResetBlink,
        12 => ResetInverse,
        13 => ResetStrikethrough,
        14 => SetForegroundColor(any_color()),
        15 => ResetForegroundColor,
        16 => SetBackgroundColor(any_color()),
        _ => ResetBackgroundColor,
    }
}

/// the statement of C08 as a function pen -> pen (observed through the public accessors)
#[derive(Clone, Copy, PartialEq)]
struct PenView {
    fg: Option<Color>,
    bg: Option<Color>,
    bold: bool,
    faint: bool,
    italic: bool,
    underline: bool,
    blink: bool,
    inverse: bool,
    strike: bool,
}

fn view_of(p: &Pen) -> PenView {
    PenView {
        fg: p.foreground(),
        bg: p.background(),
        bold: p.is_bold(),
        faint: p.is_faint(),
        italic: p.is_italic(),
        underline: p.is_underline(),
        blink: p.is_blink(),
        inverse: p.is_inverse(),
        strike: p.is_strikethrough(),
    }
}

fn ref_apply(op: SgrOp, mut v: PenView) -> PenView {
    use SgrOp::*;
    match op {
        Reset => {
            v = PenView { fg: None, bg: None, bold: false, faint: false, italic: false, underline: false, blink: false, inverse: false, strike: false };
        }
        SetBoldIntensity => {
            v.bold = true;
            v.faint = false;
        }
        SetFaintIntensity => {
            v.faint = true;
            v.bold = false;
        }
        ResetIntensity => {
            v.bold = false;
            v.faint = false;
        }
        SetItalic => v.italic = true,
        SetUnderline => v.underline = true,
        SetBlink => v.blink = true,
        SetInverse => v.inverse = true,
        SetStrikethrough => v.strike = true,
        ResetItalic => v.italic = false,
        ResetUnderline => v.underline = false,
        ResetBlink => v.blink = false,
        ResetInverse => v.inverse = false,
        ResetStrikethrough => v.strike = false,
        SetForegroundColor(c) => v.fg = Some(c),
        ResetForegroundColor => v.fg = None,
        SetBackgroundColor(c) => v.bg = Some(c),
        ResetBackgroundColor => v.bg = None,
    }
    v
}

/// T-sgr: execute(Sgr(ops)) with k arbitrary operations == left fold of the statement
pub(crate) fn t_sgr(c: TCfg, k: usize) {
    let mut t = mk_terminal(&c);
    let pre = snap(&t);
    let tw = tab_witness(&t);
    let w = any_wit(pre.len, c.cols);
    let e = resolve(&t, &w, Src::Same, MSrc::Same, pre.len);
    let mut ops: Vec<SgrOp> = Vec::with_capacity(k);
    let mut want = view_of(&t.pen);
    for _ in 0..k {
        let op = any_sgr_op();
        want = ref_apply(op, want);
        ops.push(op);
    }
    t.execute(Function::Sgr(ops));
    kv_assert!(view_of(&t.pen) == want, "[C08] the pen is the left-to-right fold of the SGR operations received");
    kv_assert!(pen_ok(&t.pen), "[C02] attribute bits stay within the five attributes");
    let mut allow = Allow::default();
    allow.pen = true;
    frame(&pre, &t, &allow, &tw);
    check_exp!(&t, &w, e, "[FR] SGR changes no cell", "[FR] SGR changes no soft-wrap mark");
    assert_inv(&t);
    kv_cover!(want.bold && want.italic && want.fg.is_some(), "bold italic coloured pen");
    kv_end!();
    forget(t);
}

// ------------------------------------------------------------------ T-plain (C09): plain text in absolute line coordinates

#[derive(Clone, Copy, PartialEq)]
pub(crate) enum PlainStep {
    Print,
    PrintWrap,
    CrLf,
}

/// Plain(t): the states plain text (printable characters and CR LF) drives a fresh primary
/// screen into: default modes / margins / charsets, rows below the cursor row blank and
/// unwrapped, the cursor row unwrapped with only spaces at and right of the cursor.
/// From any such state (any lines above, any pen, 0..2 scrollback lines, unlimited scrollback):
///  P1  Print(ch), no wrap pending: exactly lines[abs][col] := ch; no mark, no line added
///  P2  Print(ch), wrap pending:    lines[abs] becomes soft-wrapped, ch goes to column 0 of
///      lines[abs+1] (appended when the cursor was on the last row; earlier lines keep index,
///      content and mark)
///  P3  CR LF: no cell and no mark changes, the cursor goes to column 0 of lines[abs+1]
///      (appended blank and unwrapped on the last row); the row left stays unwrapped
///  P4  the post-state is Plain again
/// so the layout of a text at width w is the deferred-wrap layout whatever the height and the
/// amount scrolled, and joining rows over the soft-wrap marks gives back the input lines.
pub(crate) fn t_plain(c: TCfg, step: PlainStep) {
    let mut t = mk_terminal(&c);
    let (cols, rows) = (c.cols, c.rows);
    // force the Plain shape
    t.insert_mode = false;
    t.origin_mode = false;
    t.auto_wrap_mode = true;
    t.new_line_mode = false;
    t.charsets = [Charset::Ascii, Charset::Ascii];
    t.active_charset = 0;
    let len0 = b_len(&t.buffer);
    let o = len0 - rows;
    let row = t.cursor.row;
    let col = t.cursor.col;
    match step {
        PlainStep::Print => assume(col < cols),
        PlainStep::PrintWrap => assume(col == cols),
        PlainStep::CrLf => {}
    }
    let abs = o + row;
    b_set_wrapped(&mut t.buffer, abs, false);
    for cc in 0..cols {
        if cc >= col {
            assume(cell_at(&t, abs, cc).char() == ' ');
        }
    }
    for r in row + 1..rows {
        b_set_line(&mut t.buffer, o + r, blank_line(cols));
    }
    let pre = snap(&t);
    let tw = tab_witness(&t);
    let ch = any_char();
    assume((ch as u32 >= 0x20 && ch as u32 <= 0x7e) || ch as u32 >= 0xa0);
    let on_last = row == rows - 1;
    let grows = on_last && step != PlainStep::Print;
    let post_len = len0 + if grows { 1 } else { 0 };
    let w = any_wit(post_len, cols);
    let before = if w.i < len0 { Some((cell_at(&t, w.i, w.c), mark_at(&t, w.i))) } else { None };
    match step {
        PlainStep::Print | PlainStep::PrintWrap => t.execute(Function::Print(ch)),
        PlainStep::CrLf => {
            t.execute(Function::Cr);
            t.execute(Function::Lf);
        }
    }
    kv_assert!(b_len(&t.buffer) == post_len, "[C09] a line is added exactly when the text moves past the last row");
    let (tgt_i, tgt_c) = match step {
        PlainStep::Print => (abs, col),
        PlainStep::PrintWrap => (abs + 1, 0),
        PlainStep::CrLf => (usize::MAX, 0),
    };
    let got = cell_at(&t, w.i, w.c);
    if w.i == tgt_i && w.c == tgt_c {
        kv_assert!(got.char() == ch && *got.pen() == pre.pen, "[C09] the character lands in the next cell of the text");
    } else {
        match before {
            Some((cb, _)) => kv_assert!(got == cb, "[C09] plain text changes no other cell, however much has scrolled"),
            None => kv_assert!(got.char() == ' ', "[C09] a line appended by scrolling is blank"),
        }
    }
    let want_mark = if step == PlainStep::PrintWrap && w.i == abs {
        true
    } else {
        match before {
            Some((_, mb)) => mb,
            None => false,
        }
    };
    kv_assert!(mark_at(&t, w.i) == want_mark, "[C09] exactly the rows left by auto-wrap are soft-wrapped, and the mark survives the trip into the scrollback");
    // cursor in absolute coordinates
    let o2 = post_len - rows;
    let cur_abs = o2 + t.cursor.row;
    match step {
        PlainStep::Print => {
            kv_assert!(cur_abs == abs && t.cursor.col == col + 1 && t.pending_wrap == (col + 1 == cols), "[C09] the cursor follows the text");
        }
        PlainStep::PrintWrap => {
            kv_assert!(cur_abs == abs + 1 && t.cursor.col == 1 && t.pending_wrap == (cols == 1), "[C09] the cursor follows the text onto the next row");
        }
        PlainStep::CrLf => {
            kv_assert!(cur_abs == abs + 1 && t.cursor.col == 0 && !t.pending_wrap, "[C09] CR LF starts the next line");
        }
    }
    // P4: Plain again
    let cr = t.cursor.row;
    let ccol = t.cursor.col;
    kv_assert!(!mark_at(&t, cur_abs), "[C09] the row being written is not soft-wrapped");
    let pc = any_in(0, cols - 1);
    if pc >= ccol {
        kv_assert!(cell_at(&t, cur_abs, pc).char() == ' ', "[C09] nothing but spaces lies right of the cursor");
    }
    let pr = any_in(0, rows - 1);
    if pr > cr {
        kv_assert!(cell_at(&t, o2 + pr, pc).char() == ' ' && !mark_at(&t, o2 + pr), "[C09] rows below the cursor stay blank and unwrapped");
    }
    kv_assert!(t.auto_wrap_mode && !t.insert_mode && !t.origin_mode && !t.new_line_mode && t.top_margin == 0 && t.bottom_margin == rows - 1 && t.active_charset == 0, "[C09] plain text changes no mode");
    let mut allow = Allow::default();
    allow.cursor = true;
    allow.len = true;
    frame(&pre, &t, &allow, &tw);
    assert_inv(&t);
    kv_cover!(grows, "the text scrolls");
    kv_cover!(col + 1 == cols, "the line exactly fills the width");
    kv_cover!(ch as u32 > 0xff, "non-Latin-1 character");
    kv_end!();
    forget(t);
}

include!("terminal_gen.rs");
