// Child module of src/tabs.rs (sees Tabs' private vector).  Property C18.
//
// G6 ("tab-set invariant"): strictly increasing, every stop in 1..width-1.
// All vectors are built with a *concrete* number of stops `k` (a symbolic Vec length makes
// every later push a symbolic realloc, which CBMC does not survive); positions are symbolic.
#![allow(dead_code)]
use super::*;
use crate::kv::*;
use crate::{kv_assert, kv_cover, kv_end};

/// any G6 set of exactly k stops for a terminal `width` columns wide
pub(crate) fn any_tabs(k: usize, width: usize) -> Tabs {
    let mut v: Vec<usize> = Vec::with_capacity(k);
    let mut prev = 0usize;
    for _ in 0..k {
        let x = any_usize();
        assume(x > prev && x < width);
        v.push(x);
        prev = x;
    }
    Tabs(v)
}

pub(crate) fn tabs_vec(t: &Tabs) -> &Vec<usize> {
    &t.0
}

pub(crate) fn tabs_from(v: Vec<usize>) -> Tabs {
    Tabs(v)
}

fn member(t: &Tabs, x: usize) -> bool {
    let mut found = false;
    for s in t.0.iter() {
        if *s == x {
            found = true;
        }
    }
    found
}

/// strictly increasing, checked at one symbolic adjacent pair (= at every pair)
fn assert_sorted(t: &Tabs, what: &'static str) {
    let n = t.0.len();
    if n >= 2 {
        let j = any_usize();
        assume(j < n - 1);
        kv_assert!(t.0[j] < t.0[j + 1], "[C18] tab stops stay strictly increasing");
    }
    let _ = what;
}

fn assert_g6(t: &Tabs, width: usize) {
    assert_sorted(t, "");
    let n = t.0.len();
    if n >= 1 {
        let j = any_usize();
        assume(j < n);
        kv_assert!(t.0[j] >= 1 && t.0[j] < width, "[C18] every stop lies inside the screen, right of column 0");
    }
}

/// TB-new: a fresh set holds exactly the multiples of 8 in 8..w-1
pub(crate) fn t_tb_new(max_w: usize) {
    let w = any_in(1, max_w);
    let t = Tabs::new(w);
    let probe = any_in(0, max_w + 8);
    kv_assert!(
        member(&t, probe) == (probe >= 8 && probe < w && probe % 8 == 0),
        "[C18] default stops are exactly every 8th column"
    );
    assert_g6(&t, w);
    kv_cover!(t.0.len() == 4, "four default stops");
    kv_cover!(t.0.len() == 0, "no stop on a narrow screen");
    kv_end!();
    std::mem::forget(t);
}

/// TB-expand: widening a -> b from any G6 set of k stops adds exactly the default stops of
/// the new columns a..b-1 (including column a itself when it is a multiple of 8) and keeps
/// every old stop
pub(crate) fn t_tb_expand(k: usize, max_a: usize, max_grow: usize) {
    let a = any_in(1, max_a);
    let b = any_usize();
    assume(b > a && b <= a + max_grow);
    let mut t = any_tabs(k, a);
    let probe = any_in(0, max_a + max_grow + 1);
    let before = member(&t, probe);
    t.expand(a, b);
    let after = member(&t, probe);
    if probe < a {
        kv_assert!(after == before, "[C18] widening keeps every surviving stop and invents none in old columns");
    } else {
        kv_assert!(
            after == (probe < b && probe % 8 == 0),
            "[C18] widening adds exactly the default stops of the newly exposed columns"
        );
    }
    assert_g6(&t, b);
    kv_cover!(a % 8 == 0, "old width is a multiple of 8");
    kv_cover!(a % 8 == 7, "old width is one below a multiple of 8");
    kv_cover!(b == a + 1, "widen by one column");
    kv_end!();
    std::mem::forget(t);
}

/// TB-contract: narrowing a -> b drops exactly the stops in the columns that disappear
pub(crate) fn t_tb_contract(k: usize, max_a: usize) {
    let a = any_in(2, max_a);
    let b = any_usize();
    assume(b >= 1 && b < a);
    let mut t = any_tabs(k, a);
    let probe = any_in(0, max_a);
    let before = member(&t, probe);
    let j = any_usize();
    assume(j < k);
    let old_j = t.0[j];
    t.contract(b);
    let after = member(&t, probe);
    kv_assert!(after == (before && probe < b), "[C18] narrowing discards exactly the stops of the lost columns");
    if j < t.0.len() {
        kv_assert!(t.0[j] == old_j, "[C18] narrowing keeps the surviving stops in place");
    } else {
        kv_assert!(old_j >= b, "[C18] narrowing only removes stops of lost columns");
    }
    assert_g6(&t, b);
    kv_cover!(t.0.len() < k, "a stop was dropped");
    kv_cover!(t.0.len() == k, "no stop was dropped");
    kv_end!();
    std::mem::forget(t);
}

/// TB-edit: set / unset / clear change exactly the addressed stop
pub(crate) fn t_tb_edit(k: usize, max_w: usize, op: u8) {
    let w = any_in(2, max_w);
    let mut t = any_tabs(k, w);
    let pos = any_usize();
    // Terminal::set_tab only calls set() for 0 < col < cols; unset() is called with any cursor col
    assume(pos <= w);
    let probe = any_in(0, max_w);
    let before = member(&t, probe);
    match op {
        0 => {
            assume(pos >= 1 && pos < w);
            t.set(pos);
            kv_assert!(
                member(&t, probe) == (before || probe == pos),
                "[C18] HTS/CTC set exactly the stop at the cursor column"
            );
            kv_cover!(!before && probe == pos, "a new stop is set");
        }
        1 => {
            t.unset(pos);
            kv_assert!(
                member(&t, probe) == (before && probe != pos),
                "[C18] TBC/CTC clear exactly the stop at the cursor column"
            );
            kv_cover!(before && probe == pos, "an existing stop is cleared");
        }
        _ => {
            t.clear();
            kv_assert!(!member(&t, probe), "[C18] clearing all stops leaves none");
        }
    }
    assert_g6(&t, w);
    kv_end!();
    std::mem::forget(t);
}

/// TB-move: after(pos, n) / before(pos, n) is the n-th stop strictly right / left of pos
pub(crate) fn t_tb_move(k: usize, max_w: usize, forward: bool) {
    let w = any_in(1, max_w);
    let t = any_tabs(k, w);
    let pos = any_usize();
    assume(pos <= w); // includes the wrap-pending column
    let n16 = any_u16();
    assume(n16 >= 1);
    let n = n16 as usize;
    let got = if forward { t.after(pos, n) } else { t.before(pos, n) };
    // reference: count the stops beyond pos, and those strictly between pos and the answer
    let mut beyond = 0usize;
    for s in t.0.iter() {
        if (forward && *s > pos) || (!forward && *s < pos) {
            beyond += 1;
        }
    }
    match got {
        None => {
            kv_assert!(beyond < n, "[C18] no stop is reported only when fewer than n stops lie in that direction");
        }
        Some(s) => {
            kv_assert!(member(&t, s), "[C18] the reported stop is a stop");
            kv_assert!(if forward { s > pos } else { s < pos }, "[C18] the reported stop lies in the asked direction");
            let mut between = 0usize;
            for x in t.0.iter() {
                if (forward && *x > pos && *x < s) || (!forward && *x < pos && *x > s) {
                    between += 1;
                }
            }
            kv_assert!(between == n - 1, "[C18] the reported stop is the n-th one in that direction");
        }
    }
    kv_cover!(got.is_none() && k > 0, "ran past the last stop");
    kv_cover!(got.is_some() && n == 2, "second next stop");
    kv_end!();
    std::mem::forget(t);
}

/// TB-chain (concrete widths): two resizes of a never-customised set give Tabs::new(final)
pub(crate) fn t_tb_chain(a: usize, b: usize, c: usize) {
    let mut t = Tabs::new(a);
    for (from, to) in [(a, b), (b, c)] {
        if to < from {
            t.contract(to);
        } else if to > from {
            t.expand(from, to);
        }
    }
    let f = Tabs::new(c);
    kv_assert!(t.0.len() == f.0.len(), "[C18] a never-customised set equals a fresh one after resizes");
    let probe = any_in(0, c + 8);
    kv_assert!(member(&t, probe) == member(&f, probe), "[C18] a never-customised set equals a fresh one after resizes");
    kv_end!();
    std::mem::forget(t);
    std::mem::forget(f);
}

include!("tabs_gen.rs");
