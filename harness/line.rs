// Child module of src/line.rs.  Reflow kernels of C10: Line::contract, Line::extend, trim/trailers.
#![allow(dead_code, static_mut_refs)]
use super::*;
use crate::kv::*;
use crate::{kv_assert, kv_cover, kv_end};

pub(crate) const SHAPE_SYM: u8 = 2;

/// contract stub for Line::trailers in the shape-concrete extend harness: the number of trailing
/// default blanks is a constant of the instance there (the harness builds the line that way, and
/// t_line_trim decides the real trailers() against the same definition); without it CBMC does not
/// fold the iterator chain over heap cells into a constant and every later Vec length is symbolic
pub(crate) static mut KV_TRAILERS: usize = 0;
impl Line {
    fn kv_trailers_stub(&self) -> usize {
        unsafe { KV_TRAILERS }
    }
}

/// a line of `n` cells; blank[i] = 1: default blank cell, 0: symbolic non-default cell, 2: symbolic
fn shaped_line(n: usize, blank: [u8; 6], wrapped: bool) -> Line {
    let mut cells = Vec::with_capacity(8);
    for i in 0..n {
        let c = match blank[i] {
            1 => Cell::default(),
            // concretely non-default (a fixed letter), pen symbolic: is_default() folds to false, so the
            // Vec lengths that depend on trailing blanks are concrete while the content stays symbolic
            0 => Cell::new((b'a' + i as u8) as char, any_pen()),
            _ => any_cell(),
        };
        cells.push(c);
    }
    let mut l = Line::blank(0, Pen::default());
    l.cells = cells;
    l.wrapped = wrapped;
    l
}

fn trailing_defaults(l: &Line) -> usize {
    let mut k = 0;
    let n = l.cells.len();
    while k < n && l.cells[n - 1 - k].is_default() {
        k += 1;
    }
    k
}

/// L-trim: trailers() counts exactly the maximal suffix of default cells, trim() removes it
pub(crate) fn t_line_trim(n: usize) {
    let mut l = shaped_line(n, [SHAPE_SYM; 6], any_bool());
    let want = trailing_defaults(&l);
    kv_assert!(l.trailers() == want, "[C10] trailing blanks are counted exactly");
    let j = any_in(0, n - 1);
    let cj = l.cells[j];
    let blank_line = l.is_blank();
    kv_assert!(blank_line == (want == n), "[C10] a line is blank exactly when every cell is a default blank");
    l.trim();
    kv_assert!(l.cells.len() == n - want, "[C10] trimming removes exactly the trailing default blanks");
    if j < l.cells.len() {
        kv_assert!(l.cells[j] == cj, "[C10] trimming alters no remaining cell");
    }
    kv_cover!(want == n, "all blank");
    kv_cover!(want == 0, "no trailing blank");
    kv_end!();
    std::mem::forget(l);
}

/// L-contract: narrowing one line of n cells to `len`: the line and the returned rest together hold
/// the original cells in order; only trailing default blanks of an *unwrapped* line may be dropped;
/// the first part is marked wrapped iff a rest exists or it was wrapped
pub(crate) fn t_line_contract(n: usize, len: usize) {
    let wrapped = any_bool();
    let mut l = shaped_line(n, [SHAPE_SYM; 6], wrapped);
    let tr = trailing_defaults(&l);
    let j = any_in(0, n - 1);
    let cj = l.cells[j];
    let rest = l.contract(len);
    kv_assert!(l.cells.len() == len, "[C10] a contracted line has exactly the new width");
    if j < len {
        kv_assert!(l.cells[j] == cj, "[C10] re-wrapping keeps the head of the line in place");
    }
    match &rest {
        Some(r) => {
            kv_assert!(l.wrapped, "[C10] a line that continues on the next row is marked soft-wrapped");
            kv_assert!(r.wrapped == wrapped, "[C10] the continuation inherits the original mark");
            kv_assert!(!r.cells.is_empty() && r.cells.len() <= n - len, "[C10] the continuation holds at most the cells that did not fit");
            if j >= len {
                if j - len < r.cells.len() {
                    kv_assert!(r.cells[j - len] == cj, "[C10] re-wrapping moves the overflow to the continuation unchanged and in order");
                } else {
                    kv_assert!(!wrapped && cj.is_default() && j >= n - tr, "[C10] only trailing blanks of an unwrapped line are dropped");
                }
            }
            if wrapped {
                kv_assert!(r.cells.len() == n - len, "[C10] nothing of a soft-wrapped line is dropped");
            }
        }
        None => {
            kv_assert!(l.wrapped == wrapped, "[C10] without overflow the mark is unchanged");
            if j >= len {
                kv_assert!(!wrapped && cj.is_default() && j >= n - tr, "[C10] only trailing blanks of an unwrapped line are dropped");
            }
            kv_assert!(!wrapped && n - tr <= len, "[C10] overflow is dropped only when it is all trailing blanks of an unwrapped line");
        }
    }
    kv_cover!(rest.is_some() && !wrapped, "an unwrapped line is split");
    kv_cover!(rest.is_none(), "trailing blanks absorb the narrowing");
    kv_end!();
    std::mem::forget(l);
    std::mem::forget(rest);
}

/// L-extend: a.extend(b, len) for one concrete *shape*: la, lb cells, both marks, the number of
/// trailing default blanks of b (which decides Vec lengths); cell contents symbolic.
/// Specification (re-wrap without changing content): let b' = b without its trailing blanks if b is
/// not wrapped, else b.  If a is full or not wrapped nothing moves (a is padded with blanks);
/// otherwise a takes cells from the front of b' until it is `len` wide.
pub(crate) fn t_line_extend(la: usize, lb: usize, len: usize, a_wrapped: bool, b_wrapped: bool, b_trail: usize) {
    let mut a = shaped_line(la, [SHAPE_SYM; 6], a_wrapped);
    // b: the last b_trail cells default, the one before them not default
    let mut bs = [SHAPE_SYM; 6];
    for i in 0..lb {
        if i >= lb - b_trail {
            bs[i] = 1;
        } else {
            bs[i] = 0;
        }
    }
    let b = shaped_line(lb, bs, b_wrapped);
    let ja = any_in(0, la - 1);
    let ca = a.cells[ja];
    let jb = any_in(0, lb - 1);
    let cb = b.cells[jb];
    let needed = len - la;
    unsafe {
        KV_TRAILERS = b_trail;
    }
    let eff = if b_wrapped { lb } else { lb - b_trail }; // cells of b'
    let (done, rest) = a.extend(b, len);
    kv_assert!(a.cells[ja] == ca, "[C10] re-wrapping keeps the head of the line in place");
    if needed == 0 || !a_wrapped {
        // nothing moves
        kv_assert!(done, "[C10] a full or unwrapped line is complete");
        kv_assert!(a.cells.len() == len && a.wrapped == a_wrapped, "[C10] an unwrapped line is only padded to the new width");
        if ja >= la {
            unreachable!();
        }
        let pad = any_in(0, len - 1);
        if pad >= la {
            kv_assert!(a.cells[pad].is_default(), "[C10] padding consists of default blanks");
        }
        match &rest {
            Some(r) => {
                kv_assert!(r.cells.len() == lb && r.cells[jb] == cb && r.wrapped == b_wrapped, "[C10] the next line is handed back untouched");
            }
            None => kv_assert!(false, "[C10] the next line must not be swallowed"),
        }
    } else if needed < eff {
        kv_assert!(done && a.wrapped, "[C10] a soft-wrapped line that was filled stays soft-wrapped");
        kv_assert!(a.cells.len() == len, "[C10] the line is filled to the new width");
        match &rest {
            Some(r) => {
                kv_assert!(r.wrapped == b_wrapped && r.cells.len() == eff - needed, "[C10] the remainder keeps its mark and everything that was not taken");
                if jb < needed {
                    kv_assert!(a.cells[la + jb] == cb, "[C10] cells move up from the next row unchanged and in order");
                } else if jb < eff {
                    kv_assert!(r.cells[jb - needed] == cb, "[C10] the rest of the next row stays in order");
                }
            }
            None => kv_assert!(false, "[C10] content left over must not be lost"),
        }
    } else {
        // all of b' fits
        if jb < eff {
            kv_assert!(a.cells[la + jb] == cb, "[C10] cells move up from the next row unchanged and in order");
        }
        kv_assert!(rest.is_none(), "[C10] nothing is left of a row that was taken completely");
        if !b_wrapped {
            kv_assert!(done && !a.wrapped && a.cells.len() == len, "[C10] the logical line ends here: unwrapped and padded to the new width");
            let pad = any_in(0, len - 1);
            if pad >= la + eff {
                kv_assert!(a.cells[pad].is_default(), "[C10] padding consists of default blanks");
            }
        } else {
            kv_assert!(!done && a.wrapped && a.cells.len() == la + lb, "[C10] the logical line continues: more rows are needed");
        }
    }
    kv_end!();
    std::mem::forget(a);
    std::mem::forget(rest);
}

include!("line_gen.rs");
