#!/bin/bash
# run every claimed property's quick (or $1) command in sequence; summary at the end
tier=${1:-quick}
cd "$(dirname "$(readlink -f "$0")")"
for p in $(python3 -c "import json;print(' '.join(c['property_id'] for c in json.load(open('MANIFEST.json'))['checks']))"); do
  s=$(date +%s)
  ./check $p $tier > logs/run_$p.$tier.out 2>&1
  rc=$?
  echo "$p rc=$rc wall=$(( $(date +%s) - s ))s  $(grep -c ' PASS ' logs/run_$p.$tier.out) pass, $(grep -c 'INCONCLUSIVE ' logs/run_$p.$tier.out) inconclusive, $(grep -c '^VIOLATION' logs/run_$p.$tier.out) violations"
done
